#!/bin/sh
# Runs the repository's own test suite with the TLX_VERIF guard OFF (the stock build
# never defines it), configured like the recorded baseline build, in a scratch
# directory outside /repo and /verif which is removed afterwards.
set -e
B=${VERIF_BASELINE_DIR:-/var/tmp/verif-baseline-$$}
rm -rf "$B"
cmake -G Ninja -S /repo -B "$B" -DCMAKE_BUILD_TYPE=RelWithDebInfo -DTLX_BUILD_TESTS=ON \
      -DTLX_MORE_TESTS=ON -DCMAKE_CXX_FLAGS=-Wno-error >/dev/null
cmake --build "$B" -j16 >/dev/null
rc=0
ctest --test-dir "$B" -j8 --timeout 900 || rc=$?
rm -rf "$B"
exit $rc
