#!/usr/bin/env python3
"""Regenerates MANIFEST.json from props.py (checks that exist) + manifest_text.py."""
import json
import os
import sys

HERE = os.path.dirname(os.path.abspath(__file__))
sys.path.insert(0, HERE)
import props  # noqa: E402
import manifest_text as T  # noqa: E402

all_ids = [json.loads(l)["id"] for l in open(os.path.join(HERE, "properties.jsonl"))]
checks = []
na = []
for pid in all_ids:
    if pid in props.PROPS and pid in T.TEXT:
        t = T.TEXT[pid]
        checks.append(dict(
            property_id=pid,
            quick_cmd="./check %s --tier quick" % pid,
            thorough_cmd="./check %s --tier thorough" % pid,
            evidence_file="evidence/%s.json" % pid,
            replay_cmd_template="./check %s --replay {path}" % pid,
            engine=t.get("engine", "differential"),
            level_claimed=dict(category=props.PROPS[pid].get("level", "exploration"),
                               text=t["level_text"], design_ref=t["design_ref"]),
            level_note=t["level_note"],
            technique=t["technique"]))
    else:
        na.append(dict(property_id=pid, reason=T.NOT_CLAIMED.get(
            pid, "check not built yet in this revision of /verif (planned, see DESIGN.md section 4)")))

m = dict(
    version=1,
    setup_cmd="./check --setup",
    hooks=dict(
        guard="TLX_VERIF",
        enable="every harness is compiled by ./check straight from /repo's working tree with "
               "-DTLX_VERIF=1 (the plain/asan/tsan/asan17 builds keep tlx's asserts as monitors, the ndebug "
               "build compiles them out as the stock tests do). No hook had to be added to tlx: "
               "MANIFEST.hooks.source_commits is empty, the guard is unused, and ./baseline_off.sh runs the "
               "repository's own suite on the tree with all fix commits",
        baseline_off_cmd=T.BASELINE_OFF,
        source_commits=T.HOOK_COMMITS,
        add_only=True),
    engines=T.ENGINES,
    checks=checks,
    notes=T.NOTES,
    not_applicable=na)
with open(os.path.join(HERE, "MANIFEST.json"), "w") as f:
    json.dump(m, f, indent=1)
    f.write("\n")
print("MANIFEST.json: %d checks, %d not claimed" % (len(checks), len(na)))
