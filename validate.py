#!/usr/bin/env python3
"""Validate MANIFEST.json and evidence/*.json against the given schemas (uses the
tooling venv's jsonschema: run with python3-vt)."""
import glob, json, sys
import jsonschema
ms = json.load(open('/root/.vp/MANIFEST.schema.json'))
es = json.load(open('/root/.vp/EVIDENCE.schema.json'))
jsonschema.validate(json.load(open('MANIFEST.json')), ms)
print("MANIFEST.json valid")
for p in sorted(glob.glob('evidence/*.json')):
    jsonschema.validate(json.load(open(p)), es)
    e = json.load(open(p))
    print(p, "valid", e['tier'], e['coverage']['evaluations'], e['coverage']['distinct_nontrivial'], "violations", e.get('violations'))
