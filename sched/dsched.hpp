// dsched: scheduler shims for the thread primitives used inside namespace tlx.
//
// This header is force-included (-include sched/dsched.hpp) in front of the UNMODIFIED
// tlx sources. It declares  namespace tlx { namespace std { using namespace ::std; ... } }
// so that `std::mutex`, `std::condition_variable`, `std::thread`, `std::atomic<T>` and
// `std::this_thread::yield` written inside namespace tlx resolve to the shims below,
// while everything else (`std::unique_lock`, `std::deque`, `std::atomic_thread_fence`,
// ...) falls through to ::std.
//
// Modes (process-wide, set once by the harness):
//   REAL    shims delegate to the real primitives (nothing added)
//   JITTER  as REAL plus seeded sched_yield()/nanosleep() before the operations: real
//           concurrency with perturbed timing, used under TSan / ASan
//   SERIAL  controlled scheduling: every logical thread is a real OS thread, but only the
//           holder of the baton runs. Every shim operation is a scheduling point at which
//           a seeded strategy decides who runs next. Blocking is modelled (mutex owner,
//           condition-variable wait sets, join), so "no runnable thread while some thread
//           is unfinished" is detected as a deadlock, reported and the process exits.
//           Condition variables never wake spuriously; notify_one wakes a strategy-chosen
//           waiter. Executions are sequentially consistent.
#pragma once
#define VERIF_DSCHED 1

#include <atomic>
#include <chrono>
#include <condition_variable>
#include <cstdint>
#include <cstdio>
#include <cstdlib>
#include <functional>
#include <memory>
#include <mutex>
#include <semaphore.h>
#include <string>
#include <thread>
#include <time.h>
#include <unistd.h>
#include <utility>
#include <vector>

namespace dsched {

enum Mode { REAL = 0, JITTER = 1, SERIAL = 2 };
enum Strategy { RANDOM = 0, STICKY = 1, PCT = 2, STRATEGIES = 3 };

struct ThreadRec {
    int id = 0;
    sem_t sem;
    enum State { RUNNABLE, BLOCKED, FINISHED } state = RUNNABLE;
    const void* wait_obj = nullptr;
    char wait_kind = 0;              // 'm' mutex, 'c' condition variable, 'j' join
    long prio = 0;                   // PCT priority
    uint64_t last_lock_seq = 0;      // sequence number of this thread's latest mutex acquisition
    const void* last_load = nullptr; // spin detection
    unsigned same_loads = 0;
    ThreadRec() { sem_init(&sem, 0, 0); }
    ~ThreadRec() { sem_destroy(&sem); }
};

struct OpRec { uint64_t ticket; int tid; char kind; const void* obj; };   // kind: 'L' mutex acquired, 'A' atomic read-modify-write

struct Stats {
    uint64_t steps = 0, switches = 0, hash = 0, decisions = 0;
    unsigned threads = 0, cv_blocks = 0, mutex_blocks = 0, notifies_without_waiter = 0;
};

struct Sched {
    Mode mode = REAL;
    // --- serial state (touched by the baton holder only)
    ::std::vector<ThreadRec*> threads;
    bool in_run = false;
    uint64_t rng_state = 1;
    int strategy = RANDOM;
    Stats st;
    uint64_t max_steps = 50000000ull;
    ::std::vector<uint64_t> change_points;   // PCT
    long next_low_prio = -1;
    uint64_t expected_len = 3000;
    unsigned hw_threads = 0;                 // value of the shimmed hardware_concurrency(); 0 = real
    const char* prop = "C??";
    const char* context = "";
    void (*on_deadlock)() = nullptr;
    // --- shared (both modes)
    ::std::atomic<uint64_t> lock_seq{ 0 };
    ::std::atomic<uint64_t> ticket{ 0 };
    unsigned jitter_yield_den = 6, jitter_sleep_den = 200;
    // optional operation log (serial mode only: one runner, no locking needed)
    bool log_ops = false;
    ::std::vector<OpRec> oplog;
    void log_op(char kind, const void* obj) {
        if (log_ops && mode == SERIAL) oplog.push_back(OpRec{ ticket.fetch_add(1, ::std::memory_order_relaxed) + 1, me()->id, kind, obj });
    }
    //! serial mode: true if every logical thread except the caller is blocked or finished
    bool others_at_rest() {
        ThreadRec* m = me();
        for (ThreadRec* t : threads) if (t != m && t->state == ThreadRec::RUNNABLE) return false;
        return true;
    }
    bool others_finished() {
        ThreadRec* m = me();
        for (ThreadRec* t : threads) if (t != m && t->state != ThreadRec::FINISHED) return false;
        return true;
    }

    static Sched& get() { static Sched s; return s; }
    static ThreadRec*& self() { static thread_local ThreadRec* r = nullptr; return r; }

    uint64_t rnd() {
        rng_state += 0x9e3779b97f4a7c15ull;
        uint64_t x = rng_state;
        x = (x ^ (x >> 30)) * 0xbf58476d1ce4e5b9ull;
        x = (x ^ (x >> 27)) * 0x94d049bb133111ebull;
        return x ^ (x >> 31);
    }

    ThreadRec* me() {
        ThreadRec*& r = self();
        if (!r) { static thread_local ThreadRec tl; r = &tl; }   // a real thread outside a serial run
        return r;
    }
    ThreadRec* main_rec() { static ThreadRec m; return &m; }

    bool serial() const { return mode == SERIAL; }

    // ---- run control (called by the harness on the main thread)
    void begin(uint64_t seed, int strat) {
        for (ThreadRec* t : threads) if (t != main_rec()) delete t;
        threads.clear();
        ThreadRec* m = main_rec();
        m->id = 0; m->state = ThreadRec::RUNNABLE; m->wait_obj = nullptr; m->prio = 1000000; m->same_loads = 0;
        self() = m;
        threads.push_back(m);
        rng_state = seed * 0x9e3779b97f4a7c15ull + 12345;
        strategy = strat % STRATEGIES;
        st = Stats();
        st.threads = 1;
        change_points.clear();
        if (strategy == PCT) {
            unsigned d = 1 + (unsigned)(rnd() % 3);
            for (unsigned i = 0; i < d; ++i) change_points.push_back(rnd() % (expected_len ? expected_len : 1));
        }
        next_low_prio = -1;
        oplog.clear();
        spurious_wakeups = 0;
        in_run = true;
    }
    Stats end() {
        in_run = false;
        if (serial()) {
            for (ThreadRec* t : threads)
                if (t->state != ThreadRec::FINISHED && t != main_rec()) {
                    fprintf(stderr, "\nVERIF-KEY %s:thread-leaked:%s\nDSCHED: logical thread %d still alive at the end of the run\n", prop, context, t->id);
                    _exit(94);
                }
            expected_len = (expected_len * 3 + st.steps) / 4 + 16;
            for (ThreadRec* t : threads) if (t != main_rec()) delete t;
            threads.clear();
            threads.push_back(main_rec());
        }
        return st;
    }

    // ---- serial core
    void hand_over(ThreadRec* self_rec, ThreadRec* next, bool self_exits) {
        if (next == self_rec) return;
        ++st.switches;
        sem_post(&next->sem);
        if (!self_exits) {
            while (sem_wait(&self_rec->sem) != 0) {}
        }
    }

    ThreadRec* pick(ThreadRec* cur, bool cur_runnable, bool demote_cur) {
        // candidates
        ThreadRec* cand[128];
        unsigned n = 0;
        for (ThreadRec* t : threads)
            if (t->state == ThreadRec::RUNNABLE && n < 128) cand[n++] = t;
        if (n == 0) return nullptr;
        if (n == 1) return cand[0];
        ThreadRec* next = nullptr;
        if (strategy == PCT) {
            if (demote_cur && cur_runnable) cur->prio = next_low_prio--;
            for (uint64_t cp : change_points)
                if (cp == st.steps && cur_runnable) cur->prio = next_low_prio--;
            next = cand[0];
            for (unsigned i = 1; i < n; ++i) if (cand[i]->prio > next->prio) next = cand[i];
        }
        else if (strategy == STICKY && cur_runnable && !demote_cur && (rnd() & 7) != 0) {
            next = cur;
        }
        else {
            next = cand[rnd() % n];
            if (demote_cur && next == cur) next = cand[rnd() % n];
        }
        ++st.decisions;
        st.hash = (st.hash ^ (uint64_t)(next->id + 1)) * 1099511628211ull + n;
        return next;
    }

    void step_bound() {
        if (++st.steps > max_steps) {
            fprintf(stderr, "\nVERIF-KEY %s:no-progress:%s\nDSCHED-NO-PROGRESS after %llu scheduling steps\n", prop, context, (unsigned long long)st.steps);
            dump_threads();
            if (on_deadlock) on_deadlock();
            _exit(93);
        }
    }

    //! spurious wake-ups (allowed by the standard for condition_variable::wait): with probability
    //! 1/spurious_den per scheduling point one thread blocked in a wait becomes runnable without a
    //! notify. Off by default - they would rescue lost wake-ups; runs that enable them check that the
    //! predicate loops of the code under test tolerate them.
    unsigned spurious_den = 0;
    uint64_t spurious_wakeups = 0;
    void maybe_spurious() {
        if (!spurious_den || rnd() % spurious_den != 0) return;
        ThreadRec* cand[128]; unsigned n = 0;
        for (ThreadRec* t : threads)
            if (t->state == ThreadRec::BLOCKED && t->wait_kind == 'c' && n < 128) cand[n++] = t;
        if (!n) return;
        ThreadRec* t = cand[rnd() % n];
        t->state = ThreadRec::RUNNABLE; t->wait_obj = nullptr;
        ++spurious_wakeups;
    }

    //! scheduling point of a runnable thread
    void yield_point(bool demote = false) {
        if (!serial()) return;
        ThreadRec* s = me();
        if (threads.size() <= 1) return;
        step_bound();
        maybe_spurious();
        ThreadRec* next = pick(s, true, demote);
        hand_over(s, next, false);
    }

    void dump_threads() {
        for (ThreadRec* t : threads)
            fprintf(stderr, "  thread %d: %s%s%c %p\n", t->id,
                    t->state == ThreadRec::RUNNABLE ? "runnable" : t->state == ThreadRec::FINISHED ? "finished" : "blocked on ",
                    t->state == ThreadRec::BLOCKED ? (t->wait_kind == 'm' ? "mutex" : t->wait_kind == 'c' ? "condition variable" : "join") : "",
                    ' ', t->wait_obj);
    }

    void deadlock() {
        fprintf(stderr, "\nVERIF-KEY %s:deadlock:%s\nDSCHED-DEADLOCK no runnable thread after %llu steps (strategy %d)\n", prop, context, (unsigned long long)st.steps, strategy);
        dump_threads();
        if (on_deadlock) on_deadlock();
        fflush(stderr);
        _exit(93);
    }

    //! block the calling thread on (kind, obj) until someone makes it runnable again
    void block(char kind, const void* obj) {
        ThreadRec* s = me();
        s->state = ThreadRec::BLOCKED; s->wait_kind = kind; s->wait_obj = obj;
        if (kind == 'c') ++st.cv_blocks; else if (kind == 'm') ++st.mutex_blocks;
        step_bound();
        ThreadRec* next = pick(s, false, false);
        if (!next) deadlock();
        hand_over(s, next, false);
    }

    void wake_all(char kind, const void* obj) {
        for (ThreadRec* t : threads)
            if (t->state == ThreadRec::BLOCKED && t->wait_kind == kind && t->wait_obj == obj) {
                t->state = ThreadRec::RUNNABLE; t->wait_obj = nullptr;
            }
    }
    bool wake_one(char kind, const void* obj) {
        ThreadRec* cand[128]; unsigned n = 0;
        for (ThreadRec* t : threads)
            if (t->state == ThreadRec::BLOCKED && t->wait_kind == kind && t->wait_obj == obj && n < 128) cand[n++] = t;
        if (!n) return false;
        ThreadRec* t = cand[rnd() % n];
        t->state = ThreadRec::RUNNABLE; t->wait_obj = nullptr;
        return true;
    }

    // ---- jitter
    void jitter() {
        if (mode != JITTER) return;
        static thread_local uint64_t x = 0;
        if (!x) x = (uint64_t)(uintptr_t)&x * 0x9e3779b97f4a7c15ull + rng_state + 1;
        x ^= x << 13; x ^= x >> 7; x ^= x << 17;
        if (x % jitter_yield_den == 0) sched_yield();
        else if (x % jitter_sleep_den == 1) { struct timespec ts = { 0, (long)(20000 + (x >> 20) % 200000) }; nanosleep(&ts, nullptr); }
    }
};

inline Sched& S() { return Sched::get(); }
//! global event ticket (monotone; used by harnesses to order call / return events)
// relaxed on purpose: the harness's clock must not add happens-before edges between the threads it
// observes (TSan would then miss races of the code under test)
inline uint64_t tick() { return S().ticket.fetch_add(1, ::std::memory_order_relaxed) + 1; }
//! sequence number of the calling thread's most recent shim-mutex acquisition
inline uint64_t last_lock_seq() { return S().me()->last_lock_seq; }

} // namespace dsched

/******************************************************************************/

namespace tlx {
namespace std {

using namespace ::std;

class mutex
{
public:
    mutex() = default;
    mutex(const mutex&) = delete;
    mutex& operator=(const mutex&) = delete;

    void lock() {
        dsched::Sched& s = dsched::S();
        if (s.serial()) {
            s.yield_point();
            dsched::ThreadRec* me = s.me();
            if (owner_ == me) { owner_recursive(); }
            while (owner_ != nullptr) s.block('m', this);
            owner_ = me;
            me->last_lock_seq = s.lock_seq.fetch_add(1, ::std::memory_order_relaxed) + 1;
            me->same_loads = 0;
            s.log_op('L', this);
        }
        else {
            s.jitter();
            real_.lock();
            dsched::ThreadRec* me = s.me();
            me->last_lock_seq = s.lock_seq.fetch_add(1, ::std::memory_order_relaxed) + 1;
        }
    }
    bool try_lock() {
        dsched::Sched& s = dsched::S();
        if (s.serial()) {
            s.yield_point();
            if (owner_ != nullptr) return false;
            owner_ = s.me();
            owner_->last_lock_seq = s.lock_seq.fetch_add(1, ::std::memory_order_relaxed) + 1;
            return true;
        }
        s.jitter();
        if (!real_.try_lock()) return false;
        s.me()->last_lock_seq = s.lock_seq.fetch_add(1, ::std::memory_order_relaxed) + 1;
        return true;
    }
    void unlock() {
        dsched::Sched& s = dsched::S();
        if (s.serial()) {
            release_serial();
            s.yield_point();
        }
        else {
            real_.unlock();
            s.jitter();
        }
    }

    // used by condition_variable (serial mode)
    void release_serial() {
        owner_ = nullptr;
        dsched::S().wake_all('m', this);
    }
    void acquire_serial() {
        dsched::Sched& s = dsched::S();
        dsched::ThreadRec* me = s.me();
        while (owner_ != nullptr) s.block('m', this);
        owner_ = me;
        me->last_lock_seq = s.lock_seq.fetch_add(1, ::std::memory_order_relaxed) + 1;
        s.log_op('L', this);
    }

private:
    void owner_recursive() {
        fprintf(stderr, "\nVERIF-KEY %s:deadlock:%s\nDSCHED-DEADLOCK recursive lock of a mutex by thread %d\n", dsched::S().prop, dsched::S().context, dsched::S().me()->id);
        _exit(93);
    }
    ::std::mutex real_;
    dsched::ThreadRec* owner_ = nullptr;
};

class condition_variable
{
public:
    condition_variable() = default;
    condition_variable(const condition_variable&) = delete;
    condition_variable& operator=(const condition_variable&) = delete;

    void notify_one() noexcept {
        dsched::Sched& s = dsched::S();
        if (s.serial()) {
            s.yield_point();
            if (!s.wake_one('c', this)) ++s.st.notifies_without_waiter;
        }
        else { s.jitter(); real_.notify_one(); }
    }
    void notify_all() noexcept {
        dsched::Sched& s = dsched::S();
        if (s.serial()) { s.yield_point(); s.wake_all('c', this); }
        else { s.jitter(); real_.notify_all(); }
    }
    void wait(::std::unique_lock<mutex>& lock) {
        dsched::Sched& s = dsched::S();
        if (s.serial()) {
            mutex* m = lock.mutex();
            s.yield_point();              // a thread can be pre-empted between its predicate check and the wait
            m->release_serial();          // atomically: release the mutex and enter the wait set
            s.block('c', this);           // returns only after a notify made us runnable
            m->acquire_serial();
        }
        else {
            s.jitter();
            real_.wait(lock);
            s.me()->last_lock_seq = s.lock_seq.fetch_add(1, ::std::memory_order_relaxed) + 1;
        }
    }
    template <typename Pred>
    void wait(::std::unique_lock<mutex>& lock, Pred pred) {
        while (!pred()) wait(lock);
    }
    // timed waits (not used by tlx today; present so that code which starts using them still builds
    // against the shims). Serial mode: the time-out may always elapse, so a timed wait is modelled as
    // "release the mutex, let others run, re-acquire, report a time-out"; it never blocks the thread.
    template <typename Rep, typename Period>
    ::std::cv_status wait_for(::std::unique_lock<mutex>& lock, const ::std::chrono::duration<Rep, Period>& d) {
        dsched::Sched& s = dsched::S();
        if (s.serial()) {
            mutex* m = lock.mutex();
            s.yield_point();
            m->release_serial();
            s.yield_point(true);
            m->acquire_serial();
            return ::std::cv_status::timeout;
        }
        s.jitter();
        ::std::cv_status r = real_.wait_for(lock, d);
        s.me()->last_lock_seq = s.lock_seq.fetch_add(1, ::std::memory_order_relaxed) + 1;
        return r;
    }
    template <typename Rep, typename Period, typename Pred>
    bool wait_for(::std::unique_lock<mutex>& lock, const ::std::chrono::duration<Rep, Period>& d, Pred pred) {
        dsched::Sched& s = dsched::S();
        if (s.serial()) {
            // a few polls, then give up like an elapsed time-out
            for (int i = 0; i < 8 && !pred(); ++i) wait_for(lock, d);
            return pred();
        }
        s.jitter();
        bool r = real_.wait_for(lock, d, pred);
        s.me()->last_lock_seq = s.lock_seq.fetch_add(1, ::std::memory_order_relaxed) + 1;
        return r;
    }
    template <typename Clock, typename Duration>
    ::std::cv_status wait_until(::std::unique_lock<mutex>& lock, const ::std::chrono::time_point<Clock, Duration>& t) {
        if (dsched::S().serial()) return wait_for(lock, ::std::chrono::milliseconds(1));
        dsched::S().jitter();
        ::std::cv_status r = real_.wait_until(lock, t);
        dsched::S().me()->last_lock_seq = dsched::S().lock_seq.fetch_add(1, ::std::memory_order_relaxed) + 1;
        return r;
    }
    template <typename Clock, typename Duration, typename Pred>
    bool wait_until(::std::unique_lock<mutex>& lock, const ::std::chrono::time_point<Clock, Duration>& t, Pred pred) {
        if (dsched::S().serial()) return wait_for(lock, ::std::chrono::milliseconds(1), pred);
        dsched::S().jitter();
        bool r = real_.wait_until(lock, t, pred);
        dsched::S().me()->last_lock_seq = dsched::S().lock_seq.fetch_add(1, ::std::memory_order_relaxed) + 1;
        return r;
    }

private:
    ::std::condition_variable_any real_;
};

class thread
{
public:
    typedef ::std::thread::id id;
    thread() noexcept = default;
    thread(thread&& o) noexcept : os_(::std::move(o.os_)), rec_(o.rec_) { o.rec_ = nullptr; }
    thread& operator=(thread&& o) noexcept {
        os_ = ::std::move(o.os_);
        rec_ = o.rec_; o.rec_ = nullptr;
        return *this;
    }
    thread(const thread&) = delete;
    thread& operator=(const thread&) = delete;

    template <typename F, typename... Args,
              typename = typename ::std::enable_if<!::std::is_same<typename ::std::decay<F>::type, thread>::value>::type>
    explicit thread(F&& f, Args&&... args) {
        dsched::Sched& s = dsched::S();
        auto fn = ::std::bind(::std::forward<F>(f), ::std::forward<Args>(args)...);
        if (s.serial()) {
            dsched::ThreadRec* r = new dsched::ThreadRec();
            r->id = (int)s.threads.size();
            r->prio = (long)(s.rnd() % 1000000);
            s.threads.push_back(r);
            if (s.threads.size() > s.st.threads) s.st.threads = (unsigned)s.threads.size();
            rec_ = r;
            // the callable (and whatever it captured) is destroyed by the logical thread itself,
            // while it still holds the baton
            auto fnp = ::std::make_shared<decltype(fn)>(::std::move(fn));
            os_ = ::std::thread([r, fnp]() mutable {
                dsched::Sched& sc = dsched::S();
                dsched::Sched::self() = r;
                while (sem_wait(&r->sem) != 0) {}
                (*fnp)();
                fnp.reset();
                // finish: wake joiners, pass the baton on
                r->state = dsched::ThreadRec::FINISHED;
                sc.wake_all('j', r);
                sc.step_bound();
                dsched::ThreadRec* next = sc.pick(r, false, false);
                if (!next) sc.deadlock();
                sc.hand_over(r, next, true);
            });
            s.yield_point();
        }
        else {
            s.jitter();
            os_ = ::std::thread([fn]() mutable { dsched::S().jitter(); fn(); });
        }
    }
    ~thread() = default;   // a joinable ::std::thread member terminates, like the real one

    bool joinable() const noexcept { return os_.joinable(); }
    id get_id() const noexcept { return os_.get_id(); }
    void join() {
        dsched::Sched& s = dsched::S();
        if (s.serial() && rec_) {
            s.yield_point();
            while (rec_->state != dsched::ThreadRec::FINISHED) s.block('j', rec_);
        }
        os_.join();
    }
    void detach() { os_.detach(); }
    void swap(thread& o) noexcept { os_.swap(o.os_); ::std::swap(rec_, o.rec_); }
    static unsigned hardware_concurrency() noexcept {
        unsigned h = dsched::S().hw_threads;
        return h ? h : ::std::thread::hardware_concurrency();
    }

private:
    ::std::thread os_;
    dsched::ThreadRec* rec_ = nullptr;
};

namespace this_thread {
using namespace ::std::this_thread;
inline void yield() noexcept {
    dsched::Sched& s = dsched::S();
    if (s.serial()) s.yield_point(true);
    else ::std::this_thread::yield();
}
} // namespace this_thread

template <typename T>
struct atomic
{
    atomic() noexcept = default;
    constexpr atomic(T v) noexcept : real_(v) {}
    atomic(const atomic&) = delete;
    atomic& operator=(const atomic&) = delete;

    static void point(const void* obj, bool is_load, bool rmw = false) {
        dsched::Sched& s = dsched::S();
        if (s.serial()) {
            if (s.threads.size() <= 1) { if (rmw) s.log_op('A', obj); return; }
            dsched::ThreadRec* me = s.me();
            bool spin = false;
            if (is_load) {
                if (me->last_load == obj) { if (++me->same_loads >= 3) spin = true; }
                else { me->last_load = obj; me->same_loads = 0; }
            }
            else { me->last_load = nullptr; me->same_loads = 0; }
            s.yield_point(spin);
            if (rmw) s.log_op('A', obj);
        }
        else s.jitter();
    }

    T load(::std::memory_order o = ::std::memory_order_seq_cst) const noexcept { point(this, true); return real_.load(o); }
    void store(T v, ::std::memory_order o = ::std::memory_order_seq_cst) noexcept { point(this, false); real_.store(v, o); }
    T exchange(T v, ::std::memory_order o = ::std::memory_order_seq_cst) noexcept { point(this, false, true); return real_.exchange(v, o); }
    bool compare_exchange_strong(T& e, T d, ::std::memory_order o = ::std::memory_order_seq_cst) noexcept { point(this, false); return real_.compare_exchange_strong(e, d, o); }
    bool compare_exchange_weak(T& e, T d, ::std::memory_order o = ::std::memory_order_seq_cst) noexcept { point(this, false); return real_.compare_exchange_strong(e, d, o); }
    bool compare_exchange_strong(T& e, T d, ::std::memory_order s, ::std::memory_order f) noexcept { point(this, false); return real_.compare_exchange_strong(e, d, s, f); }
    bool compare_exchange_weak(T& e, T d, ::std::memory_order s, ::std::memory_order f) noexcept { point(this, false); return real_.compare_exchange_strong(e, d, s, f); }
    template <typename U> T fetch_add(U v, ::std::memory_order o = ::std::memory_order_seq_cst) noexcept { point(this, false, true); return real_.fetch_add(v, o); }
    template <typename U> T fetch_sub(U v, ::std::memory_order o = ::std::memory_order_seq_cst) noexcept { point(this, false, true); return real_.fetch_sub(v, o); }
    template <typename U> T fetch_and(U v, ::std::memory_order o = ::std::memory_order_seq_cst) noexcept { point(this, false, true); return real_.fetch_and(v, o); }
    template <typename U> T fetch_or(U v, ::std::memory_order o = ::std::memory_order_seq_cst) noexcept { point(this, false, true); return real_.fetch_or(v, o); }
    template <typename U> T fetch_xor(U v, ::std::memory_order o = ::std::memory_order_seq_cst) noexcept { point(this, false, true); return real_.fetch_xor(v, o); }
    operator T() const noexcept { return load(); }
    T operator=(T v) noexcept { store(v); return v; }
    T operator++() noexcept { point(this, false, true); return ++real_; }
    T operator++(int) noexcept { point(this, false, true); return real_++; }
    T operator--() noexcept { point(this, false, true); return --real_; }
    T operator--(int) noexcept { point(this, false, true); return real_--; }
    template <typename U> T operator+=(U v) noexcept { point(this, false, true); return real_ += v; }
    template <typename U> T operator-=(U v) noexcept { point(this, false, true); return real_ -= v; }
    template <typename U> T operator&=(U v) noexcept { point(this, false, true); return real_ &= v; }
    template <typename U> T operator|=(U v) noexcept { point(this, false, true); return real_ |= v; }
    bool is_lock_free() const noexcept { return real_.is_lock_free(); }

private:
    mutable ::std::atomic<T> real_;
};

} // namespace std
} // namespace tlx

namespace dsched {
typedef tlx::std::thread thread;
typedef tlx::std::mutex mutex;
typedef tlx::std::condition_variable condition_variable;
template <typename T> using atomic = tlx::std::atomic<T>;
} // namespace dsched
