"""Per-property configuration of the /verif monitors: harness units (what to compile
from /repo's working tree) and the runs of each tier (which binary, how many worker
processes, how many cases each, which arguments)."""

PROPS = {}


def R(unit, variant, workers, count, args=(), partition=False, timeout=1800, **kw):
    d = dict(unit=unit, variant=variant, workers=workers, count=count, args=list(args),
             partition=partition, timeout=timeout)
    d.update(kw)
    return d


SAN_ASSUME = ("sanitizer runtimes (gcc 12 ASan/UBSan/TSan) report what they detect; a clean "
              "sanitizer run is not a proof of memory safety")

# ----------------------------------------------------------------------------- C20
PROPS["C20"] = dict(
    units={"math": dict(src=["harness/C20_math.cpp"], flags=["-fno-sanitize=alignment"])},
    quick=[
        R("math", "asan", 1, 3, ["mode=small"], partition=True),
        R("math", "asan", 3, 24, ["mode=small"], from_=3, partition=True),
        R("math", "plain", 16, 4096, ["mode=w32", "stride=256"], partition=True),
        R("math", "asan", 8, 4096, ["mode=w32", "stride=4096"], partition=True),
        R("math", "asan", 4, 40, ["mode=w64"]),
        R("math", "asan", 2, 20, ["mode=pairs"]),
        R("math", "asan", 2, 6, ["mode=rot"]),
        R("math", "asan", 1, 200, ["mode=popbuf"]),
        R("math", "asan", 4, 60, ["mode=agg"]),
    ],
    thorough=[
        R("math", "asan", 1, 3, ["mode=small"], partition=True),
        R("math", "plain", 16, 4099, ["mode=small"], partition=True),
        R("math", "plain", 16, 4096, ["mode=w32", "stride=1"], partition=True, timeout=7200),
        R("math", "asan", 16, 4096, ["mode=w32", "stride=64"], partition=True, timeout=7200),
        R("math", "asan", 16, 2500, ["mode=w64"]),
        R("math", "asan", 8, 500, ["mode=pairs"]),
        R("math", "asan", 4, 100, ["mode=rot"]),
        R("math", "asan", 2, 5000, ["mode=popbuf"]),
        R("math", "asan", 16, 3000, ["mode=agg"]),
    ],
    rule="cases are value batches: every 8/16-bit value (and every 8-bit pair) of the template "
         "helpers, 32-bit values on a stride (stride 1 = all 2^32) through the intrinsic and "
         "generic overloads of int/unsigned, structured (all 1-/2-bit patterns, power-of-two "
         "neighbours, extremes) and random 64-bit values through long/long long overloads, "
         "div_ceil/round_up/abs_diff pairs (dense 1..300, near the type maximum, and n/k of different integer types with results above 2^32), rotations "
         "by 0..128, buffer popcounts at every alignment, Aggregate pairs. Each result is "
         "compared with a loop/128-bit reference; inputs are restricted to each function's "
         "documented domain and to results representable in the result type. A class is a "
         "distinct (mode, sub-space) or (Aggregate type, emptiness of A/B, means differ) tuple.",
    exhaustive=dict(
        quick="all 2^8 and 2^16 values of the 8/16-bit template instantiations and all 2^16 "
              "8-bit pairs of abs_diff/div_ceil/round_up; 32-bit: stride sample only",
        thorough="as quick, plus all 2^32 values of the int/unsigned overloads (mode=w32 stride=1)"),
    require=dict(any=["exhaustive:8-bit:templates", "exhaustive:16-bit:templates",
                      "values_checked:w32", "values_checked:w64", "pairs_checked:agg", "mixed_type_pairs"]),
    assumptions=["reference definitions written in the harness (bit loops, __int128) are right",
                 "UBSan alignment check disabled: popcount(void*) reads unaligned words by design",
                 SAN_ASSUME],
)

# ----------------------------------------------------------------------------- C18
PROPS["C18"] = dict(
    units={"sv": dict(src=["harness/C18_string_view.cpp"])},
    quick=[
        R("sv", "plain", 16, 3906, ["mode=exh"], partition=True),
        R("sv", "asan", 16, 977, ["mode=exh", "stride=4"], partition=True),
        R("sv", "asan", 4, 40, ["mode=rand"]),
        R("sv", "plain", 1, 1, ["mode=huge"]),
    ],
    thorough=[
        R("sv", "plain", 16, 3906, ["mode=exh", "full=1"], partition=True, timeout=7200),
        R("sv", "asan", 16, 3906, ["mode=exh"], partition=True, timeout=7200),
        R("sv", "asan", 16, 3000, ["mode=rand"], timeout=7200),
        R("sv", "plain", 2, 2, ["mode=huge"]),
        R("sv", "asan17", 1, 1, ["mode=huge"], timeout=3600),
    ],
    rule="exhaustive mode: one case per haystack out of all 3906 byte strings of length 0..5 over "
         "{00,'a','b',80,FF}; each is combined with all 156 needles of length 0..3 (plus itself and "
         "its one-byte extensions), every pos in {0..size+2,npos-1,npos} and n in {0..size+2,npos}, "
         "through every query method/operator that std::string_view also has; results compared by "
         "value (sign for compare, bytes+count for copy, exception kind). random mode: strings up to "
         "64 bytes over 4 alphabets. Classes: haystack length (exh) and alphabet x length class (rand); "
         "distinct haystacks are counted in counters.exh_haystacks.",
    exhaustive=dict(
        quick="all (haystack<=5, needle<=3) pairs over the 5-letter alphabet x all pos/n for every "
              "method in the uninstrumented build (the ASan build covers every 4th haystack, residue "
              "chosen by the seed); needle-side (pos2,n2) of the 5-argument compare sampled",
        thorough="as quick, with all needle-side (pos2,n2) combinations as well"),
    require=dict(any=["exh_haystacks", "calls_compared"]),
    assumptions=["libstdc++'s std::string_view is the reference, only where its behaviour is defined "
                 "(remove_prefix/suffix with n<=size, front/back on non-empty views)",
                 SAN_ASSUME],
)

# ----------------------------------------------------------------------------- C15
PROPS["C15"] = dict(
    units={"nets": dict(src=["harness/C15_networks.cpp"], flags=["-DVERIF_PART=0"]),
           "nets_rand": dict(src=["harness/C15_networks.cpp"], flags=["-DVERIF_PART=1"])},
    quick=[
        R("nets", "plain", 17, 17, ["mode=zo"], partition=True),
        R("nets", "asan", 14, 14, ["mode=zo"], partition=True),      # n = 0..13 under ASan
        R("nets", "asan", 1, 17, ["mode=obl"], partition=True),
        R("nets_rand", "asan", 4, 50, ["mode=rand"]),
    ],
    thorough=[
        R("nets", "plain", 17, 17, ["mode=zo"], partition=True),
        R("nets", "asan", 17, 17, ["mode=zo"], partition=True),
        R("nets", "asan", 1, 17, ["mode=obl"], partition=True),
        R("nets_rand", "asan", 16, 5000, ["mode=rand"]),
    ],
    rule="zo: one case per n in 0..16 = all 2^n zero-one inputs (elements carry unique ids, so "
         "permutation is checked by identity, plus a canary behind the range) x 3 families x "
         "{size-specific sortN, dispatching sort(begin,end)} x {less, greater}, the dispatcher also through "
         "reverse iterators, a strided iterator and deque iterators across a block boundary (objects outside "
         "the range must stay untouched); obl: the recorded "
         "compare-exchange index sequence of every sortN is input-independent with i<j (premise of "
         "the zero-one principle); rand: random int/string/record inputs with duplicates under "
         "several strict weak orders (also a rank-table functor and a std::function, passed as one named object "
         "that is used again after every call and must be left intact), the same iterator kinds, checked for "
         "order and multiset equality. A class is a distinct "
         "(mode, family, entry point, order, n) tuple that completed.",
    exhaustive=dict(quick="all 2^n zero-one inputs for every n = 0..16, every family, both entry points, "
                          "ascending and descending (uninstrumented build; ASan build n <= 13)",
                    thorough="as quick, ASan build also up to n = 16"),
    require=dict(any=["zero_one_n_complete", "random_inputs"]),
    assumptions=["zero-one principle: a data-oblivious comparator network that sorts all 0/1 inputs sorts "
                 "every input (obliviousness itself is monitored by mode=obl)", SAN_ASSUME],
)

# ----------------------------------------------------------------------------- C14
def _c14_post(res, scratch, tier, seed0):
    from oracle import c14_oracle
    n, per, bad = c14_oracle.check_logs(scratch)
    res.counters["oracle_records_checked"] = n
    for k, v in per.items():
        res.counters["oracle_records:" + k] = v
    if n != res.counters.get("records_logged", 0):
        # workers that died lose their counter, never the other way round
        if n < res.counters.get("records_logged", 0):
            res.inconclusive.append("python oracle saw %d records, harness logged %d"
                                    % (n, res.counters.get("records_logged", 0)))
    seen = set()
    for key, detail in bad:
        res.violations.append(dict(key=key, detail=detail, seed=seed0, index=0, run=-1,
                                   unit="digest", variant="asan", args=["mode=len"]))


_DIGEST_TLX = ["tlx/digest/md5.cpp", "tlx/digest/sha1.cpp", "tlx/digest/sha256.cpp",
               "tlx/digest/sha512.cpp", "tlx/string/hexdump.cpp"]
PROPS["C14"] = dict(
    units={"digest": dict(src=["harness/C14_digest.cpp"], tlx=_DIGEST_TLX,
                          flags=["-fno-sanitize=alignment"])},
    quick=[
        R("digest", "asan", 16, 1101, ["mode=len", "splits_upto=260"], partition=True),
        R("digest", "plain", 16, 1101, ["mode=len", "splits_upto=1100"], partition=True),
        R("digest", "asan", 4, 2, ["mode=long", "maxlen=1500000"]),
        R("digest", "asan", 8, 6, ["mode=sip"]),
        R("digest", "plain", 1, 1, ["mode=huge"], partition=True),
        R("digest", "plain", 1, 1, ["mode=hugesip"], partition=True),
    ],
    thorough=[
        R("digest", "asan", 16, 1101, ["mode=len", "splits_upto=1100"], partition=True, timeout=7200),
        R("digest", "plain", 16, 1101, ["mode=len", "splits_upto=1100"], partition=True),
        R("digest", "asan", 16, 12, ["mode=long", "maxlen=12000000"], timeout=7200),
        R("digest", "asan", 16, 300, ["mode=sip"], timeout=7200),
        R("digest", "plain", 6, 6, ["mode=huge"], partition=True, timeout=7200),
        R("digest", "plain", 2, 2, ["mode=hugesip"], partition=True, timeout=7200),
    ],
    post=[_c14_post],
    rule="len: one case per message length 0..1100 (random, all-00 and all-ff content) through all four "
         "digest classes: every two-call split position (up to splits_upto, sampled beyond), 1-byte "
         "calls, chunks of block-1/block/block+1, random partitions with empty chunks, short-then-"
         "crossing chunks, both process() overloads, constructors, finalize(), hex helpers -- every "
         "chunking must equal the single-call digest, which python hashlib recomputes from the log. "
         "long: 0.1-12 MB repeated-pattern messages with lengths around block boundaries. sip: per key "
         "(3 special + random) lengths 0..129 x buffer offsets 0..15, plain vs SSE2 vs dispatcher, value "
         "recomputed by an independent SipHash-2-4. Classes: message length (len), length class (long), "
         "key class (sip).",
    exhaustive=dict(quick="every message length 0..1100 for all four digests; every two-call split for "
                          "every length (uninstrumented build) / for lengths <= 260 (ASan build)",
                    thorough="every message length 0..1100, every two-call split, in both builds"),
    require=dict(any=["lengths_covered", "oracle_records_checked", "siphash_evaluations",
                      "all_two_call_splits:sha512"]),
    assumptions=["python hashlib (OpenSSL) implements MD5/SHA-1/SHA-256/SHA-512 correctly",
                 "oracle/c14_oracle.py's SipHash-2-4 is written from the paper and self-tested on the "
                 "paper's vectors before every use",
                 "UBSan alignment check disabled: SipHash reads unaligned 64-bit words by design (x86)",
                 SAN_ASSUME],
)

# ----------------------------------------------------------------------------- C09
PROPS["C09"] = dict(
    units={"lt": dict(src=["harness/C09_loser_tree.cpp"])},
    quick=[
        R("lt", "plain", 8, 150),
        R("lt", "asan", 8, 40),
    ],
    thorough=[
        R("lt", "plain", 16, 6000, timeout=7200),
        R("lt", "asan", 16, 1500, timeout=7200),
    ],
    rule="a case is 30 rounds; each round draws one guarded and one unguarded game plan (k in 1..17, "
         "31..33, 64 or random up to 70; per player a sorted key stream of length 0..14 over a universe "
         "of 1..100 keys, ascending or descending order; guarded plans include players exhausted from "
         "the start and all-exhausted games; unguarded plans stop before any player runs dry and in a "
         "third of the cases contain real keys equal to the constructor sentinel) and replays it on "
         "every variant: Copy/Pointer x stable/unstable x guarded/unguarded, plus the LoserTree<> / "
         "LoserTreeUnguarded<> switches, for an 8-byte, a 40-byte and a heap-owning key type. After "
         "init() and every delete_min_insert() min_source() is compared with a scan of the shadow "
         "array. A class is a distinct (variant, k class, initially-exhausted, keys-reach-sentinel) tuple.",
    require=dict(any=["guarded_histories", "unguarded_histories", "reports_with_ties"]),
    assumptions=["unguarded trees are only driven within their documented precondition (no player runs "
                 "out of keys); nothing is required of min_source() once every player is exhausted",
                 SAN_ASSUME],
)

# ----------------------------------------------------------------------------- C05
PROPS["C05"] = dict(
    units={"mwm": dict(src=["harness/C05_multiway_merge.cpp"])},
    quick=[
        R("mwm", "plain", 8, 60),
        R("mwm", "asan", 8, 20),
    ],
    thorough=[
        R("mwm", "plain", 16, 4000, timeout=7200),
        R("mwm", "asan", 16, 1000, timeout=7200),
    ],
    rule="a case is 40 shapes; a shape = k in {0..9,16,17,33,64} sorted sequences (ascending or "
         "descending comparator) with lengths 0..40 (sometimes one dominant sequence of up to 3000), "
         "empty sequences at random positions, key universe 1..100000 (mostly tiny: heavy ties), "
         "sometimes identical last elements, and a length in {0,1,total-1,total,random}. Every shape is "
         "merged by all 4 algorithms x stable/unstable x sentinel/plain entry points for an 8-byte "
         "(copy tree), a 32-byte (pointer tree), a heap-owning and a 16-byte heap-owning, ledger-registered (copy tree with "
         "non-trivial elements) element type; elements carry "
         "(seq,pos) so the output is compared with the stable reference merge: keys position by "
         "position, per-sequence prefix property, exact (seq,pos) for stable variants, returned end, "
         "advanced begins, untouched ends/inputs/sentinel slots, canary behind the output. A class "
         "is a distinct (entry point, algorithm, element type, k class, length class, empty seqs, "
         "tie density) tuple.",
    require=dict(any=["merges_checked", "shapes_with_empty_sequences", "shapes_with_partial_length"]),
    assumptions=["std::stable_sort of the concatenation is the reference merge order",
                 "sentinel entry points are driven with a readable slot behind every sequence holding a key "
                 "strictly beyond all real keys, as the property states", SAN_ASSUME],
)

# ----------------------------------------------------------------------------- C08
PROPS["C08"] = dict(
    units={"part": dict(src=["harness/C08_partition.cpp"])},
    quick=[
        R("part", "plain", 16, 81, ["mode=exh"], partition=True),
        R("part", "asan", 8, 12, ["mode=rand"]),
        R("part", "plain", 8, 60, ["mode=rand"]),
        R("part", "plain", 2, 2, ["mode=huge"], partition=True),
    ],
    thorough=[
        R("part", "asan", 16, 81, ["mode=exh"], partition=True),
        R("part", "plain", 16, 66, ["mode=exh4"], partition=True),
        R("part", "asan", 16, 150, ["mode=rand"], timeout=7200),
        R("part", "plain", 16, 1200, ["mode=rand"], timeout=7200),
        R("part", "plain", 8, 8, ["mode=huge"], partition=True),
        R("part", "asan", 2, 2, ["mode=huge"], partition=True),
    ],
    rule="every rank 0..N of each tuple is one (tuple, rank) pair. exh: ALL tuples of 1..3 sorted "
         "sequences of length 1..4 over {0,1,2} (40494 tuples; thorough adds all 130321 tuples of 4 "
         "sequences of length 1..3); rand: m in 1..10 (one tuple in eight: 17..64 sequences, often of length 1..2), lengths dense 1..9 / around powers of two / very "
         "unequal (1-2 vs 150-250) / 1..40, value universe 1..100000 (mostly 1..4), ascending and "
         "descending, plain ints and a key+tag struct ordered by key only. Partition results are compared "
         "with the split induced by (value, sequence, position); selection with merged[rank] and its "
         "offset. Non-trivial pairs (a tie across the split) are counted in "
         "counters.pairs_with_tie_across_split; classes are (m, length mode, universe, order) / blocks.",
    exhaustive=dict(quick="all tuples with m<=3, lengths 1..4, values {0,1,2}, every rank",
                    thorough="as quick plus all tuples with m=4, lengths 1..3, values {0,1,2}, every rank"),
    require=dict(any=["tuple_rank_pairs", "pairs_with_tie_across_split", "exhaustive_tuples",
                      "tuples_with_more_than_16_sequences"]),
    assumptions=["brute-force merge by (value, sequence index, position) is the specification of the split",
                 SAN_ASSUME],
)

# ----------------------------------------------------------------------------- C01 / C02
_BT_QUICK = [(4, 4), (4, 7), (5, 4), (8, 8), (7, 16)]
_BT_THOROUGH = _BT_QUICK + [(4, 5), (6, 4), (5, 5), (16, 4), (4, 16), (6, 7), (9, 5), (33, 4), (4, 33),
                            (16, 16), (33, 33), (12, 6), (5, 9), (64, 21), (8, 4)]


def _bt_units(configs):
    u = {}
    for (l, i) in configs:
        for g in range(6):
            u["bt_%d_%d_g%d" % (l, i, g)] = dict(
                src=["harness/C01_btree.cpp"], tlx=["tlx/die/core.cpp"],
                flags=["-DVERIF_LEAF=%d" % l, "-DVERIF_INNER=%d" % i, "-DVERIF_GROUP=%d" % g,
                       "-DTLX_BTREE_DEBUG"],
                flags_asan=["-g1"])
    return u


def _bt_runs(configs, variant, count, prop, timeout=1800, heavy_div=15):
    # groups 4 and 5 (std::string / Tracked elements) cost 10-15x more per case
    # (and more still with big nodes: those runs are spread over 4 workers so that they do not form the tail)
    def one(l, i, g):
        n = max(4, count // (heavy_div if g >= 4 else 1))
        if l * i >= 256:
            n = max(4, n // 3)      # a case costs several times more with big nodes (bulk loads scale with the capacities)
        w = 4 if (g >= 4 and l * i >= 256 and n >= 64) else 1
        return R("bt_%d_%d_g%d" % (l, i, g), variant, w, max(4, n // w), ["prop=" + prop], timeout=timeout)
    return [one(l, i, g) for (l, i) in configs for g in range(6)]


_BT_RULE = ("a case = 4 operation histories (2 container instantiations of the unit's group x binary/linear "
            "in-node search) of 60..1500 operations over two live containers: insert (value, hinted, range; also with the "
            "value passed as a reference to an entry stored in the tree), erase(key), erase_one (one time in four with the "
            "key passed as a reference to the key stored in the tree), erase(iterator, often inside duplicate runs), find/count/exists/lower_bound/"
            "upper_bound/equal_range through const and non-const overloads on present, absent and out-of-range "
            "keys, operator[], ==,!=,<,<=,>,>= between the two containers, copy-construct, assignment (also self "
            "and onto non-empty), swap, clear, bulk_load of N items with N around multiples of the node "
            "capacities, destruction; key universe 8..5000; grow/shrink/oscillate phases. Units: (leaf,inner) "
            "capacity pairs x 6 groups covering set/multiset/map/multimap x less/greater/stateful-table order x "
            "int/std::string/Tracked keys and Tracked mapped values. A class is a distinct (container<key,"
            "order>, capacities, search, operation, structural effect: in-place / leaf split / inner split / "
            "root growth / merges / root collapse) tuple observed.")

PROPS["C01"] = dict(
    units=_bt_units(_BT_THOROUGH),
    quick=_bt_runs(_BT_QUICK, "plain", 1500, "C01"),
    thorough=_bt_runs(_BT_THOROUGH, "plain", 15000, "C01", timeout=7200)
    + _bt_runs(_BT_QUICK, "asan", 1500, "C01", timeout=7200),
    rule=_BT_RULE + " After every operation: returned value / iterator rank / size / full forward and reverse "
    "iteration (canonicalised inside equal-key runs of multimaps) compared with the std container.",
    require=dict(any=["operations", "effect:inner-split", "effect:root-collapse", "effect:leaf-merge"]),
    assumptions=["libstdc++ std::set/multiset/map/multimap are the reference",
                 "entries with equivalent keys may be in any relative order: positions are compared as ranks of "
                 "bounds, find/insert results only for membership in [lower_bound, upper_bound)", SAN_ASSUME],
)
PROPS["C02"] = dict(
    units=_bt_units(_BT_THOROUGH),
    quick=_bt_runs(_BT_QUICK[:4], "asan", 100, "C02", heavy_div=6),
    thorough=_bt_runs(_BT_THOROUGH, "asan", 1200, "C02", timeout=7200, heavy_div=6),
    rule=_BT_RULE + " After every mutating operation: tree.verify() (die -> exception), an independent walker "
    "through TLX_BTREE_FRIENDS (equal leaf depth, fill bounds, key order inside and across nodes, separator "
    "== max of child, leaf chain both directions == in-order leaves, stats == counted, strictness for unique "
    "trees), allocator accounting (arena-checking allocator: live blocks == nodes of all live trees, no "
    "foreign/unknown/double free, nothing live at the end) and, for Tracked keys/values, the lifetime ledger "
    "(no element alive inside released storage, none destroyed twice, none left at the end); ASan for any "
    "access to released storage.",
    require=dict(any=["operations", "invariant_checks", "walker_node_visits", "effect:inner-split",
                      "effect:leaf-merge", "ledger_constructed"]),
    assumptions=["element slots of a node are default-constructed with the node and destroyed with it: "
                 "'constructed and destroyed exactly once' is checked per slot object", SAN_ASSUME],
)

# ----------------------------------------------------------------------------- C16
PROPS["C16"] = dict(
    units={"rb": dict(src=["harness/C16_ring_buffer.cpp"])},
    quick=[R("rb", "asan", 8, 1500), R("rb", "plain", 8, 12000)],
    thorough=[R("rb", "asan", 16, 6000, timeout=7200), R("rb", "plain", 16, 40000, timeout=7200)],
    rule="a case = 10 rounds; a round = one RingBuffer<Tracked> history (plus int / std::string variants) "
         "and one SimpleVector<Tracked> history. RingBuffer histories (40..600 ops) use two buffers with "
         "capacities from {0..9,15,16,17}: push/emplace at both ends (lvalue, rvalue), pop_front, pop_back, "
         "clear, copy/move construction and assignment (same and different capacity, self), copy_to/move_to, "
         "deallocate()+allocate(smaller/larger), default construction then allocate, destruction; "
         "preconditions (capacity, non-empty) are respected. After every op: size/empty/front/back/every "
         "index (const and non-const) equal the std::deque model, every stored element is alive with the "
         "right value, ledger.live == stored elements, allocator blocks balance. SimpleVector: construct, "
         "element assignment, resize, swap, move construction/assignment, destroy, fill. Classes: element "
         "type x first capacity.",
    require=dict(any=["ring_histories", "simple_vector_histories", "pop_back", "deallocate_allocate"]),
    assumptions=["std::deque is the bounded-deque model; a moved-from RingBuffer is only destroyed, assigned "
                 "to or re-allocated", SAN_ASSUME],
)

# ----------------------------------------------------------------------------- C13
_C13_PARTS = ["dary", "addr", "radix_narrow", "radix_wide"]
PROPS["C13"] = dict(
    units={n: dict(src=["harness/C13_heaps.cpp"], tlx=["tlx/die/core.cpp"], flags=["-DVERIF_PART=%d" % i])
           for i, n in enumerate(_C13_PARTS)},
    quick=[R(n, "asan", 2, 100) for n in _C13_PARTS] + [R(n, "plain", 2, 800) for n in _C13_PARTS],
    thorough=[R(n, "asan", 4, 8000, timeout=7200) for n in _C13_PARTS]
    + [R(n, "plain", 4, 80000, timeout=7200) for n in _C13_PARTS],
    rule="a case = 12 rounds; a round = one DAryHeap history (arity 1..8 x {int/less, int/greater, record "
         "ordered by priority only, heap-owning Tracked descending}), two DAryAddressableIntHeap histories "
         "(arity 1..8, 32/64-bit keys, ascending/descending comparator over an external priority table) and "
         "two RadixHeapPair histories (key type u8/i8/u16/i16/u32/i32/u64/i64 x radix 2/4/8/16/64). "
         "Histories have 30..400 ops: push (lvalue/rvalue/emplace/bucket-hinted), pop, extract_top, top, "
         "remove(key), single-priority change (increase/decrease/same) + update(key) incl. absent keys, "
         "mass priority change + update_all, build_heap (3 overloads, on empty and non-empty heaps), clear, "
         "reserve, copy/move round trips, swap_top_bucket, peak_top_key; radix keys are monotone w.r.t. the "
         "last top()/pop()/swap_top_bucket() and include the type minimum/maximum, the limit itself and "
         "power-of-two offsets. After every op: size/empty, top is a member with a minimal priority, "
         "contains() of every key of the universe and of keys beyond the handle table, sanity_check(), "
         "ledger.live == size for Tracked; final drain is ordered and multiset-equal. Classes: heap x config.",
    require=dict(any=["dary_histories", "addr_histories", "radix_histories", "addr_build_heap_nonempty",
                      "addr_update_increase", "addr_update_decrease", "radix_reorganisations",
                      "radix_key_type_max", "radix_swap_top_bucket"]),
    assumptions=["linear scans of a shadow multiset are the reference; among equal priorities any element may "
                 "surface", "radix heap is only driven with keys >= the key returned by the most recent "
                 "top()/pop()/swap_top_bucket() (its documented precondition)", SAN_ASSUME],
)

# ----------------------------------------------------------------------------- C17
PROPS["C17"] = dict(
    units={"lru_splay": dict(src=["harness/C17_lru_splay.cpp"])},
    quick=[R("lru_splay", "asan", 8, 120), R("lru_splay", "plain", 8, 1200)],
    thorough=[R("lru_splay", "asan", 16, 8000, timeout=7200), R("lru_splay", "plain", 16, 60000, timeout=7200)],
    rule="a case = 12 rounds; a round = one LRU cache history (LruCacheSet<int|string>, LruCacheMap<int,Tracked | "
         "string,string | Tracked,int>; key universe 3..12 plus one rarely present key; 20..300 ops: put (new and "
         "existing key, new value; also with the value passed as a reference into the cache: put(k, get(k)) and put(k, get(k2))), touch, touch_if_exists, erase, erase_if_exists, get, get_touch, exists, pop on "
         "non-empty caches, clear-then-reuse, final drain by pop) and one SplayTree history (set/multiset x less/"
         "greater/coarse order with 2-key equivalence classes x int/Tracked keys; insert, erase(key), erase(node), "
         "exists, find, clear-then-reuse, operations on the empty tree, destruction). After every op: LRU size, "
         "exists() of every key, returned values, exception kind (range_error exactly for absent keys), popped key = "
         "least recently used with its latest value, ledger.live; SplayTree size/empty, result of the call, complete "
         "in-order traversal == std::(multi)set (sortedness of the walk = search-tree validity), live node blocks "
         "== size through the arena-checking allocator, ledger.live == size for Tracked keys. Classes: container "
         "type x universe.",
    require=dict(any=["lru_histories", "splay_histories", "lru_pops", "lru_put_existing", "lru_exception_on_absent",
                      "splay_clear_then_reuse", "splay_ops_on_empty_tree", "splay_erase_one_of_equivalent",
                      "lru_put_value_aliasing_own_entry"]),
    assumptions=["a std::list with linear search is the reference LRU; std::set/multiset the reference ordered set",
                 "find() on an absent key may return either neighbour (the splayed root); only membership is fixed",
                 SAN_ASSUME],
)


# ----------------------------------------------------------------------------- C19
def _c19_post(res, scratch, tier, seed0):
    from oracle import c19_oracle
    n, per, bad = c19_oracle.check_logs(scratch)
    res.counters["oracle_records_checked"] = n
    for k, v in per.items():
        res.counters["oracle_records:" + k] = v
    if n < res.counters.get("records_logged", 0):
        res.inconclusive.append("python oracle saw %d records, harness logged %d"
                                % (n, res.counters.get("records_logged", 0)))
    for key, detail in bad:
        res.violations.append(dict(key=key, detail=detail, seed=seed0, index=0, run=-1,
                                   unit="str", variant="asan", args=["mode=codec"]))


_STR_TLX = ["tlx/string/%s.cpp" % n for n in (
    "base64", "hexdump", "compare_icase", "contains", "ends_with", "equal_icase", "erase_all", "join",
    "join_quoted", "less_icase", "pad", "replace", "split", "split_quoted", "starts_with", "to_lower",
    "to_upper", "trim")]
PROPS["C19"] = dict(
    units={"str": dict(src=["harness/C19_strings.cpp"], tlx=_STR_TLX)},
    quick=[
        R("str", "plain", 16, 4681, ["mode=exh"], partition=True),
        R("str", "asan", 16, 585, ["mode=exh"], partition=True),      # lengths 0..3 under ASan
        R("str", "asan", 8, 30, ["mode=rand"]),
        R("str", "asan", 4, 260, ["mode=codec"], partition=True),
    ],
    thorough=[
        R("str", "plain", 16, 4681, ["mode=exh"], partition=True),
        R("str", "asan", 16, 4681, ["mode=exh"], partition=True, timeout=7200),
        R("str", "asan", 16, 3000, ["mode=rand"], timeout=7200),
        R("str", "plain", 16, 20000, ["mode=rand"], timeout=7200),
        R("str", "asan", 16, 4000, ["mode=codec"], partition=True, timeout=7200),
    ],
    post=[_c19_post],
    rule="exh: one case per byte string s of length 0..4 over {',','\"','\\',' ','a','B',NUL,0xE9} (4681 strings): every "
         "one-string helper (to_lower/upper, all 27 trim overloads x default/char/set drop, erase_all, pad, contains, "
         "char replace, split by char with limit 0/1/2/3/npos and min_fields, hexdump/base64 round trip, one-field "
         "join_quoted round trip) and, paired with every t of length 0..2 (73 strings), every two-string helper "
         "(starts/ends_with +icase in all pointer/view overloads, contains, compare/equal/less_icase in 4 overloads, "
         "levenshtein +icase, replace_first/all with 4 replacements, split by string with limits and min_fields) "
         "against reference code written from the header documentation. rand: 200 rounds of join<->split round trips "
         "(bordered and NUL separators, empty parts at the beginning/middle/end), join_quoted<->split_quoted for "
         "arbitrary vectors over an alphabet of separator/quote/escape/\\n\\r\\t/NUL/high bytes with 5x2x2 "
         "parameter choices, long strings with overlapping needles. codec: every length 0..maxlen x 4 contents + "
         "random lengths < 10^4: hexdump (6 overloads) and base64 with line breaks 0/4/8/76/random multiple of 4, "
         "strict and non-strict decode, dirty input; each encoding is also recomputed by python. Classes: string "
         "length (exh), length mod 3 (codec).",
    exhaustive=dict(quick="all strings of length 0..4 over the 8-byte alphabet x all partners of length 0..2 in the "
                          "uninstrumented build (ASan build: lengths 0..3)",
                    thorough="as quick, in both builds"),
    require=dict(any=["exh_strings", "calls_compared", "roundtrips_join_split", "roundtrips_quoted",
                      "roundtrip_trailing_empty_part", "quoted_empty_field", "quoted_field_starting_with_quote",
                      "codec_lengths", "oracle_records_checked"]),
    assumptions=["reference helpers in the harness are direct transcriptions of the header documentation; python's "
                 "base64/binascii are the RFC 4648 reference", "less_icase: the documentation does not say where bytes >= "
                 "0x80 sort, so only its agreement with compare_icase on 7-bit input, asymmetry and consistency with "
                 "equal_icase are required", "empty separators/needles and equal sep/quote/escape characters are outside "
                 "the documented domain and not driven", SAN_ASSUME],
)

# ----------------------------------------------------------------------------- C03
PROPS["C03"] = dict(
    units={"ss": dict(src=["harness/C03_string_sort.cpp"])},
    quick=[
        R("ss", "plain", 8, 60),
        R("ss", "asan", 8, 12),
        R("ss", "plain", 4, 3, ["big=1"]),
        R("ss", "asan", 2, 1, ["big=1"]),
    ],
    thorough=[
        R("ss", "plain", 16, 6000, timeout=7200),
        R("ss", "asan", 16, 1200, timeout=7200),
        R("ss", "plain", 8, 60, ["big=1"], timeout=7200),
        R("ss", "asan", 8, 12, ["big=1"], timeout=7200),
    ],
    rule="a case = 40 sorts (big=1: 2 sorts of 65535..140000 strings). A sort = one string multiset (10 shapes: "
         "all-equal, 2-4 values, shared prefix of length 1..40 crossing the 8/16-bit radix and 8-byte boundaries, "
         "prefix chain, mostly empty strings, length-1 strings, bytes 0x01-0xFF, bytes 0x80-0xFF only, runs of >= 30 "
         "identical strings with/without extensions, {a,b} strings; suffixes of 1-3 letter texts) of size 0..3000 "
         "(sizes around 32 and 256 weighted) x representation (uchar*/char*/const variants, each string in its own "
         "exact-size heap block; std::string; unique_ptr<string>; suffix set) x entry point (public sort_strings[_lcp] "
         "pointer and vector overloads, insertion_sort, multikey_quicksort, radixsort_CE0/CE2/CE3/CI2/CI3) x memory "
         "limit (0, 1, 1..30000, k*n + slack-sized offset for the k of every memory_use formula, 1-16 MiB) x with/"
         "without LCP. Checked: pointer/offset/value multiset unchanged, adjacent order by memcmp+length, every "
         "lcp[i>=1] exact, canary behind the lcp array. A class is a distinct (entry, repr, memory class, size class, "
         "shape) tuple.",
    require=dict(any=["sorts", "sorts_with_memory_limit", "sorts_with_lcp", "sorts_n_ge_65536"]),
    assumptions=["inputs are NUL-free as the property states; lcp[0] is unspecified by the API and not checked",
                 "std::string elements are compared as a multiset of values (the sorters may move them)", SAN_ASSUME],
)

# ----------------------------------------------------------------------------- C11
_SCHED_FLAGS = ["-include", "dsched.hpp"]
_SCHED_ASSUME = ("dsched shims (sched/dsched.hpp) model std::mutex / condition_variable / thread / atomic faithfully; "
                 "controlled schedules are sequentially consistent, condition variables never wake spuriously and "
                 "notify_one may wake any waiter; weak-memory effects are only covered by TSan's happens-before "
                 "analysis of the jittered real-thread runs")
PROPS["C11"] = dict(
    units={"sync": dict(src=["harness/C11_sync.cpp"], flags=_SCHED_FLAGS)},
    quick=[
        R("sync", "plain", 8, 400, ["mode=serial"]),
        R("sync", "asan", 4, 60, ["mode=serial"]),
        R("sync", "tsan", 4, 40, ["mode=jitter"], timeout=900),
        R("sync", "asan", 2, 30, ["mode=jitter"], timeout=900),
    ],
    thorough=[
        R("sync", "plain", 16, 4000, ["mode=serial"], timeout=7200),
        R("sync", "asan", 8, 400, ["mode=serial"], timeout=7200),
        R("sync", "tsan", 8, 300, ["mode=jitter"], timeout=7200),
        R("sync", "asan", 4, 300, ["mode=jitter"], timeout=7200),
    ],
    rule="a case = 50 scenarios, each run under one schedule. Semaphore scenarios: 1-3 waiter threads (wait / "
         "try_acquire with equal deltas, mixed deltas 1..3 or mixed deltas with slack 0..2, occasionally delta 0), 0-2 "
         "signaler threads (signal(), signal(n), try_acquire), initial value 0..2, and the controller thread; either "
         "the supply covers the demand or (serial mode) it does not and the controller inspects every rest state "
         "(all other threads blocked or finished): a blocked waiter whose request is covered by value() is a stranded "
         "waiter, otherwise the controller supplies tokens for the least demanding one (batch or single signals). All "
         "completed operations are replayed on the sequential model in the order of their deciding mutex "
         "acquisition. Barrier scenarios: ThreadBarrierMutex / ThreadBarrierSpin x wait / wait_yield, 1-4 threads "
         "(jitter: up to 16), 3-7 generations with random work in between; enter/leave/action tickets checked per "
         "generation, the action's thread against the last arriver from the shim's operation log (serial). "
         "mode=serial: controlled schedules (uniform random, sticky random, PCT-style priorities with 1-3 change "
         "points; a third of the scenarios with injected spurious condition-variable wake-ups); distinct schedules are "
         "counted by the hash of their decisions. mode=jitter: real threads with "
         "seeded yields/sleeps under TSan and ASan. Classes: scenario type x shape.",
    require=dict(any=["sem_histories", "barrier_histories", "sem_rest_states_inspected", "sem_waits_that_blocked",
                      "sem_ops_replayed", "barrier_generations", "schedule_steps"]),
    assumptions=[_SCHED_ASSUME, "a deadlock (no runnable logical thread) or a thread left alive at the end of a scenario is "
                 "a violation; a wall-clock watchdog on the real-thread runs is inconclusive", SAN_ASSUME],
)

# ----------------------------------------------------------------------------- C10
PROPS["C10"] = dict(
    units={"pool": dict(src=["harness/C10_thread_pool.cpp"], tlx=["tlx/thread_pool.cpp"], flags=_SCHED_FLAGS)},
    quick=[
        R("pool", "plain", 8, 150, ["mode=serial"]),
        R("pool", "asan", 4, 30, ["mode=serial"]),
        R("pool", "tsan", 4, 20, ["mode=jitter"], timeout=900),
        R("pool", "asan", 2, 20, ["mode=jitter"], timeout=900),
    ],
    thorough=[
        R("pool", "plain", 16, 6000, ["mode=serial"], timeout=7200),
        R("pool", "asan", 8, 600, ["mode=serial"], timeout=7200),
        R("pool", "tsan", 8, 300, ["mode=jitter"], timeout=3600),
        R("pool", "asan", 4, 300, ["mode=jitter"], timeout=3600),
    ],
    rule="a case = 30 scenarios, each under one schedule. graph: pool of 1-4 (jitter: 1-8) workers, 1-3 rounds of 0-3 "
         "root jobs that enqueue children (depth 0-2, fan-out 1-3) with pause points inside, optionally 1-2 outside "
         "threads enqueuing concurrently and a second concurrent loop_until_empty() waiter; ends by draining, by "
         "destroying the pool with jobs pending, or by terminate() then destruction. terminate: terminate() from a "
         "job, from an outside thread, or from outside while every worker is idle, with one or two "
         "loop_until_terminate() waiters. rendezvous (serial): k <= p jobs that wait for each other, enqueued back to "
         "back from outside or from a job. burst (real threads): 400 rounds of p tiny jobs writing plain slots that the "
         "waiter reads right after loop_until_empty() (the harness's own atomics are relaxed, so TSan judges the pool's "
         "synchronisation alone). Every job closure captures an object by value whose destructor records a ticket: tearing the closure down is part of the "
         "job. Checked from the recorded tickets: no job twice, every job enqueued before "
         "a loop_until_empty() call done at its return, the waiter's interval not covered by pending jobs, done() and "
         "plain writes after a quiet return, no job running when loop_until_terminate()/~ThreadPool return; dsched "
         "reports deadlocks. mode=serial: seeded controlled schedules (random, sticky, PCT-style; a third of the scenarios "
         "with injected spurious wake-ups); mode=jitter: real "
         "threads with seeded delays under TSan/ASan. Classes: scenario shape.",
    require=dict(any=["pool_scenarios", "jobs_executed", "terminate_scenarios", "rendezvous_scenarios",
                      "waits_that_blocked", "schedule_steps"]),
    assumptions=[_SCHED_ASSUME, "jobs dropped by terminate()/destruction are allowed to never run (the property exempts a "
                 "terminated pool); a deadlock is a violation, a wall-clock watchdog on real-thread runs is inconclusive",
                 SAN_ASSUME],
)

# ----------------------------------------------------------------------------- C12
PROPS["C12"] = dict(
    units={"cptr": dict(src=["harness/C12_counting_ptr.cpp"], flags=_SCHED_FLAGS)},
    quick=[
        R("cptr", "asan", 8, 150, ["mode=seq"]),
        R("cptr", "plain", 4, 600, ["mode=seq"]),
        R("cptr", "plain", 8, 120, ["mode=serial"]),
        R("cptr", "asan", 4, 30, ["mode=serial"]),
        R("cptr", "tsan", 4, 20, ["mode=jitter"], timeout=900),
        R("cptr", "asan", 2, 20, ["mode=jitter"], timeout=900),
        R("cptr", "plain", 1, 1, ["mode=wide"]),
    ],
    thorough=[
        R("cptr", "asan", 16, 15000, ["mode=seq"], timeout=7200),
        R("cptr", "plain", 16, 8000, ["mode=serial"], timeout=7200),
        R("cptr", "asan", 8, 1000, ["mode=serial"], timeout=7200),
        R("cptr", "tsan", 8, 600, ["mode=jitter"], timeout=3600),
        R("cptr", "asan", 4, 600, ["mode=jitter"], timeout=3600),
        R("cptr", "plain", 2, 2, ["mode=wide"], timeout=3600),
        R("cptr", "ndebug", 1, 1, ["mode=wide"], timeout=3600),
    ],
    rule="mode=seq: a case = 20 histories of 20..250 operations over 5 CountingPtr<Obj>, 2 CountingPtr<Der> and 2 "
         "CountingPtr<const Obj> handle variables with the default deleter, a call-counting deleter or the no-delete "
         "deleter: construction from raw pointers (also a second handle from the raw pointer of a managed object), "
         "make_counting, copy/move assignment (self, and between handles of the same object), copy/move construction, "
         "converting copies/moves from the derived handle, reset, member and free swap, unify on shared/unique/empty "
         "handles, nullptr construction, comparisons; plus one history over handles that live inside managed objects "
         "(singly linked nodes: push_front, p = p->next, p = std::move(p->next), q = p->next, p->next = q without "
         "closing a cycle, p->next.reset(), unlinking the second node by copy and by move). After every operation each handle's target, use_count()/unique()/"
         "valid()/empty(), reference_count() of every referenced object == number of handles pointing at it, and live "
         "objects == referenced objects (destroyed exactly when the last handle lets go; never with the no-delete "
         "deleter; deleter calls == destructions). mode=serial/jitter: a case = 60 concurrent histories of 2-3 threads x "
         "1-2 shared objects: copy, drop, move chains, publish/adopt/clear a handle in a mutex-protected mailbox, swap, unify() (clone when shared), "
         "while the creator drops its handles; each object must die exactly once after the last handle of any thread is "
         "gone (controlled schedules with every reference-count operation as a scheduling point; TSan/ASan with "
         "jitter). Classes: deleter (seq), threads x objects (concurrent).",
    require=dict(any=["seq_histories", "operations", "unify_shared", "concurrent_histories", "schedule_steps",
                      "list_histories", "list_pop_front_by_copy", "list_pop_front_by_move", "list_unlink"]),
    assumptions=[_SCHED_ASSUME, "after a move between two handles of the same object the source may be left either empty or "
                 "untouched: the monitor takes what it observes and requires the counts to add up", SAN_ASSUME],
)

# ----------------------------------------------------------------------------- C07
PROPS["C07"] = dict(
    units={"pmwm": dict(src=["harness/C07_parallel_merge.cpp"], tlx=["tlx/algorithm/parallel_multiway_merge.cpp"])},
    quick=[
        R("pmwm", "plain", 6, 400, timeout=900),
        R("pmwm", "asan", 6, 100, timeout=900),
        R("pmwm", "tsan", 4, 50, timeout=900),
    ],
    thorough=[
        R("pmwm", "plain", 16, 3000, timeout=7200),
        R("pmwm", "asan", 16, 600, timeout=7200),
        R("pmwm", "tsan", 8, 300, timeout=7200),
    ],
    rule="a case = 12 shapes x 5 merges. A shape = k in {0..9,16,17,33} sorted sequences (ascending or descending) with "
         "lengths 0..40 (sometimes a dominant sequence of up to 4200, which also reaches the natural parallel switch), "
         "empty sequences, key universe 1..100000 (mostly tiny: heavy ties across every split point) and a length in "
         "{0,1,total-1,total,random}. A merge = one of the four parallel entry points x merge algorithm x {exact, "
         "sampling} splitting x oversampling {1,2,10} x threads {1,2,3,4,5,7,8,16,32} (more threads than elements "
         "included) x forced-parallel or natural switch, for a 16-byte (copy tree) and a 40-byte (pointer tree) element "
         "type that counts assignments per destination object. Output compared with the stable reference merge as in "
         "C05 (keys, per-sequence prefix, exact order for stable variants, returned end, advanced begins, untouched "
         "ends/inputs, canary) and every output position must have been assigned exactly once; TSan decides races. A "
         "class is a distinct (entry point, splitting, algorithm, element type, thread class, length class, parallel or "
         "fall-back, tie density) tuple.",
    require=dict(any=["merges_checked", "parallel_merges", "merges_with_more_threads_than_elements",
                      "parallel_merges_with_partial_length", "parallel_merges_all_keys_equal"]),
    assumptions=["std::stable_sort of the concatenation is the reference merge order; for the unstable entry points only the "
                 "key sequence, the per-sequence prefix property and the advanced inputs are required",
                 "real OS scheduling only (no controlled scheduler): the threads of a parallel merge share nothing but the "
                 "read-only inputs and disjoint output windows, so TSan + the write counters are the deciding monitors",
                 SAN_ASSUME],
)

# ----------------------------------------------------------------------------- C06
PROPS["C06"] = dict(
    units={"pms": dict(src=["harness/C06_parallel_mergesort.cpp"], tlx=["tlx/algorithm/parallel_multiway_merge.cpp"]),
           "pms_sched": dict(src=["harness/C06_parallel_mergesort.cpp"], tlx=["tlx/algorithm/parallel_multiway_merge.cpp"],
                             flags=_SCHED_FLAGS)},
    quick=[
        R("pms", "asan", 6, 25, timeout=900),
        R("pms", "plain", 4, 60, timeout=900),
        R("pms", "tsan", 4, 10, ["tracked_every=8"], timeout=900),
        R("pms", "plain", 2, 2, ["big=1"], timeout=900),
        R("pms_sched", "plain", 4, 25, ["mode=serial"], timeout=900),
    ],
    thorough=[
        R("pms", "asan", 16, 500, timeout=7200),
        R("pms", "plain", 8, 1500, timeout=7200),
        R("pms", "tsan", 8, 200, ["tracked_every=8"], timeout=7200),
        R("pms", "plain", 8, 15, ["big=1"], timeout=7200),
        R("pms", "tsan", 2, 3, ["big=1"], timeout=7200),
        R("pms_sched", "plain", 8, 600, ["mode=serial"], timeout=7200),
        R("pms_sched", "asan", 4, 80, ["mode=serial"], timeout=7200),
    ],
    rule="a case = 40 sorts (big=1: 3 sorts of 20000..300000 elements). A sort = n in 0..300 (dense, so n < threads and n "
         "not divisible by threads occur constantly) or 1000..5000, key multiset {all equal, 2-4 distinct keys, sorted, "
         "reversed, sawtooth, random, one heavy key}, threads in {1..8,11,16,17,32}, exact or sampling splitting, "
         "oversampling 1/2/10, ascending or descending comparator, stable or unstable entry point, trivial (key,index) "
         "records or heap-owning ledger-registered Tracked elements in an array of exactly n elements. Stable: exact "
         "equality with std::stable_sort; unstable: sorted and the (key,index) multiset unchanged; Tracked: ledger.live "
         "unchanged by the call, no copy from / assignment to dead storage, nothing alive after the array is gone, LSan "
         "at exit; TSan for races (mostly trivial elements there: the ledger's own lock would hide races). The pms_sched unit runs "
         "the same sorts with the sort's threads and mutex barrier on the dsched shims under controlled schedules, "
         "where a thread that never arrives at a barrier is an exact deadlock report. Classes: "
         "(stable, element type, splitting, thread class, size class, key shape).",
    require=dict(any=["sorts", "sorts_with_n_below_threads", "sorts_with_n_not_divisible", "sorts_with_heap_owning_elements",
                      "controlled_schedules"]),
    assumptions=["std::stable_sort is the reference arrangement", "real OS scheduling only: the threads synchronise through the "
                 "mutex barrier alone (its interleavings are explored under C11), so TSan on real executions is the race "
                 "monitor; a wall-clock watchdog is inconclusive", SAN_ASSUME],
)

# ----------------------------------------------------------------------------- C04
_C04_TLX = ["tlx/thread_pool.cpp", "tlx/multi_timer.cpp", "tlx/logger/core.cpp", "tlx/die/core.cpp"]
_C04_UNITS = ["pss0", "pss1", "pss2"]
PROPS["C04"] = dict(
    units={u: dict(src=["harness/C04_parallel_string_sort.cpp"], tlx=_C04_TLX, flags=_SCHED_FLAGS + ["-DVERIF_PART=%d" % i],
                   flags_asan=["-g1"], flags_tsan=["-g1"])
           for i, u in enumerate(_C04_UNITS)},
    quick=[R(u, "plain", 2, 150, ["mode=serial"], timeout=600) for u in _C04_UNITS]
    + [R(u, "asan", 1, 60, ["mode=serial"], timeout=600) for u in _C04_UNITS]
    + [R(u, "tsan", 1, 40, ["mode=jitter"], timeout=600) for u in _C04_UNITS]
    + [R(u, "asan", 1, 40, ["mode=jitter"], timeout=600) for u in _C04_UNITS]
    + [R("pss0", "plain", 1, 3, ["mode=jitter", "big=1"], timeout=600),
       R("pss0", "asan", 1, 1, ["mode=jitter", "big=1"], timeout=600)],
    thorough=[R(u, "plain", 5, 1500, ["mode=serial"], timeout=7200) for u in _C04_UNITS]
    + [R(u, "asan", 3, 300, ["mode=serial"], timeout=7200) for u in _C04_UNITS]
    + [R(u, "tsan", 3, 200, ["mode=jitter"], timeout=7200) for u in _C04_UNITS]
    + [R(u, "asan", 2, 200, ["mode=jitter"], timeout=7200) for u in _C04_UNITS]
    + [R("pss0", "plain", 4, 10, ["mode=jitter", "big=1"], timeout=7200),
       R("pss0", "asan", 4, 4, ["mode=jitter", "big=1"], timeout=7200),
       R("pss0", "tsan", 2, 2, ["mode=jitter", "big=1"], timeout=7200)],
    rule="a case = 12 sorts (big=1: one sort of 1.05-2.1 million strings through the public entry points with default "
         "parameters). A sort = a string multiset of the C03 shapes (all-equal, few values, shared prefixes around the "
         "4/8-byte key width, prefix chains, mostly empty, length-1, random and high bytes, runs of identical strings, "
         "{a,b} strings) of 0..5000 strings, as uchar* (own heap block per string) or std::string, with or without LCP "
         "output, 1..4 (jitter: ..16) workers through the shimmed hardware_concurrency(), and one of seven parameter sets "
         "(smallsort threshold 2..1024, insertion threshold 2..32, splitter tree of 2..10 bits, both tree classifiers tlx instantiates, work "
         "sharing on/off, rest-size accounting on/off, 32/64-bit keys, or the defaults). mode=serial: one seeded "
         "controlled schedule per sort (random / sticky / PCT-style) over all mutex, condition-variable and atomic "
         "operations of the sorter and its thread pool, distinct schedules counted by decision hash; mode=jitter: real "
         "threads with seeded delays under TSan/ASan. Output checked as in C03 (identity permutation, memcmp order, "
         "exact LCP, canary). Classes: (parameter set, representation, lcp, workers, size class, shape).",
    require=dict(any=["sorts", "sorts_with_lcp", "sorts_with_more_than_one_worker", "controlled_schedules"]),
    assumptions=[_SCHED_ASSUME, "inputs are NUL-free; lcp[0] is not checked", "the sampler of the sort seeds itself from a heap "
                 "address, so a replay reproduces the schedule decisions but not necessarily the same splitters",
                 SAN_ASSUME],
)


# ----------------------------------------------------------------------------- release-mode runs
# All runs above keep tlx's own asserts enabled (they are monitors). The stock tests and most users
# build with -DNDEBUG, and code whose behaviour differs once the asserts are compiled out (a needed
# side effect inside an assert, an invariant only an assert was enforcing, a branch that the optimiser
# removes because an assert made it unreachable) is only observed in such a build. Every property
# whose anchored code contains asserts therefore gets release-mode runs of its main workload as well.
def _nd(prop, quick, thorough):
    PROPS[prop]["quick"] = PROPS[prop]["quick"] + quick
    PROPS[prop]["thorough"] = PROPS[prop]["thorough"] + thorough
    PROPS[prop]["rule"] += (" Release-mode runs: the main workload is repeated in an -O2 -DNDEBUG build "
                            "(tlx's asserts compiled out, as in the stock test build).")


_nd("C01", _bt_runs(_BT_QUICK[:3], "ndebug", 400, "C01"), _bt_runs(_BT_QUICK, "ndebug", 4000, "C01", timeout=7200))
_nd("C03", [R("ss", "ndebug", 4, 20)], [R("ss", "ndebug", 16, 100, timeout=7200)])
_nd("C04", [R("pss%d" % i, "ndebug", 1, 50, ["mode=serial"]) for i in range(3)],
    [R("pss%d" % i, "ndebug", 4, 300, ["mode=serial"], timeout=7200) for i in range(3)])
_nd("C05", [R("mwm", "ndebug", 4, 20)], [R("mwm", "ndebug", 16, 300, timeout=7200)])
_nd("C06", [R("pms", "ndebug", 2, 20)], [R("pms", "ndebug", 8, 200, timeout=7200)])
_nd("C07", [R("pmwm", "ndebug", 3, 100)], [R("pmwm", "ndebug", 8, 1000, timeout=7200)])
_nd("C08", [R("part", "ndebug", 4, 20, ["mode=rand"])], [R("part", "ndebug", 16, 100, ["mode=rand"], timeout=7200)])
_nd("C09", [R("lt", "ndebug", 4, 50)], [R("lt", "ndebug", 16, 1000, timeout=7200)])
_nd("C10", [R("pool", "ndebug", 4, 50, ["mode=serial"])], [R("pool", "ndebug", 16, 1000, ["mode=serial"], timeout=7200)])
_nd("C12", [R("cptr", "ndebug", 4, 200, ["mode=seq"]), R("cptr", "ndebug", 4, 40, ["mode=serial"])],
    [R("cptr", "ndebug", 8, 4000, ["mode=seq"], timeout=7200), R("cptr", "ndebug", 8, 1000, ["mode=serial"], timeout=7200)])
_nd("C13", [R(u, "ndebug", 1, 300) for u in ("dary", "addr", "radix_narrow", "radix_wide")],
    [R(u, "ndebug", 4, 10000, timeout=7200) for u in ("dary", "addr", "radix_narrow", "radix_wide")])
_nd("C16", [R("rb", "ndebug", 4, 3000)], [R("rb", "ndebug", 16, 40000, timeout=7200)])
_nd("C17", [R("lru_splay", "ndebug", 4, 300)], [R("lru_splay", "ndebug", 16, 10000, timeout=7200)])


# ----------------------------------------------------------------------------- previous language standard
# tlx builds with whatever standard the compiler offers, from C++20 down to C++11, and the standard
# library's defaults differ between them (std::atomic's default constructor leaves the value
# indeterminate before C++20, C++20 adds rewritten comparison candidates, ...). Every property gets one
# ASan+UBSan run of its main workload compiled as C++17 (variant asan17; ASan also fills fresh heap
# memory with a non-zero pattern, so "relies on zeroed storage" shows).
def _v17(prop, quick, thorough):
    PROPS[prop]["quick"] = PROPS[prop]["quick"] + quick
    PROPS[prop]["thorough"] = PROPS[prop]["thorough"] + thorough
    PROPS[prop]["rule"] += " One run of the main workload is compiled as C++17 (ASan+UBSan)."


_v17("C01", _bt_runs([(5, 4)], "asan17", 150, "C01"), _bt_runs([(5, 4), (8, 8)], "asan17", 1500, "C01", timeout=7200))
_v17("C02", _bt_runs([(4, 7)], "asan17", 60, "C02", heavy_div=6), _bt_runs([(4, 7), (7, 16)], "asan17", 1200, "C02", timeout=7200, heavy_div=6))
_v17("C03", [R("ss", "asan17", 4, 6)], [R("ss", "asan17", 16, 60, timeout=7200)])
_v17("C04", [R("pss0", "asan17", 1, 30, ["mode=serial"])], [R("pss%d" % i, "asan17", 4, 100, ["mode=serial"], timeout=7200) for i in range(3)])
_v17("C05", [R("mwm", "asan17", 4, 10)], [R("mwm", "asan17", 16, 200, timeout=7200)])
_v17("C06", [R("pms", "asan17", 3, 12)], [R("pms", "asan17", 8, 150, timeout=7200)])
_v17("C07", [R("pmwm", "asan17", 3, 50)], [R("pmwm", "asan17", 8, 600, timeout=7200)])
_v17("C08", [R("part", "asan17", 4, 6, ["mode=rand"])], [R("part", "asan17", 16, 40, ["mode=rand"], timeout=7200)])
_v17("C09", [R("lt", "asan17", 4, 20)], [R("lt", "asan17", 16, 600, timeout=7200)])
_v17("C10", [R("pool", "asan17", 4, 20, ["mode=serial"])], [R("pool", "asan17", 16, 500, ["mode=serial"], timeout=7200)])
_v17("C11", [R("sync", "asan17", 4, 40, ["mode=serial"])], [R("sync", "asan17", 16, 800, ["mode=serial"], timeout=7200)])
_v17("C12", [R("cptr", "asan17", 4, 80, ["mode=seq"]), R("cptr", "asan17", 4, 20, ["mode=serial"])],
     [R("cptr", "asan17", 8, 2000, ["mode=seq"], timeout=7200), R("cptr", "asan17", 8, 500, ["mode=serial"], timeout=7200)])
_v17("C13", [R(u, "asan17", 1, 100) for u in _C13_PARTS], [R(u, "asan17", 4, 4000, timeout=7200) for u in _C13_PARTS])
_v17("C14", [R("digest", "asan17", 8, 1101, ["mode=len", "splits_upto=40"], partition=True), R("digest", "asan17", 4, 4, ["mode=sip"])],
     [R("digest", "asan17", 16, 1101, ["mode=len", "splits_upto=300"], partition=True, timeout=7200), R("digest", "asan17", 8, 100, ["mode=sip"], timeout=7200)])
_v17("C15", [R("nets", "asan17", 12, 12, ["mode=zo"], partition=True), R("nets_rand", "asan17", 4, 25, ["mode=rand"])],
     [R("nets", "asan17", 15, 15, ["mode=zo"], partition=True, timeout=7200), R("nets_rand", "asan17", 16, 2000, ["mode=rand"], timeout=7200)])
_v17("C16", [R("rb", "asan17", 4, 800)], [R("rb", "asan17", 16, 4000, timeout=7200)])
_v17("C17", [R("lru_splay", "asan17", 4, 60)], [R("lru_splay", "asan17", 16, 4000, timeout=7200)])
_v17("C18", [R("sv", "asan17", 16, 977, ["mode=exh", "stride=4"], partition=True), R("sv", "asan17", 4, 20, ["mode=rand"])],
     [R("sv", "asan17", 16, 3906, ["mode=exh"], partition=True, timeout=7200), R("sv", "asan17", 16, 1000, ["mode=rand"], timeout=7200)])
_v17("C19", [R("str", "asan17", 16, 585, ["mode=exh"], partition=True), R("str", "asan17", 4, 15, ["mode=rand"]), R("str", "asan17", 4, 260, ["mode=codec"], partition=True)],
     [R("str", "asan17", 16, 4681, ["mode=exh"], partition=True, timeout=7200), R("str", "asan17", 16, 500, ["mode=rand"], timeout=7200)])
_v17("C20", [R("math", "asan17", 1, 3, ["mode=small"], partition=True), R("math", "asan17", 4, 4096, ["mode=w32", "stride=8192"], partition=True),
             R("math", "asan17", 2, 20, ["mode=w64"]), R("math", "asan17", 2, 30, ["mode=agg"])],
     [R("math", "asan17", 1, 3, ["mode=small"], partition=True), R("math", "asan17", 16, 4096, ["mode=w32", "stride=512"], partition=True, timeout=7200),
      R("math", "asan17", 8, 400, ["mode=w64"], timeout=7200), R("math", "asan17", 4, 600, ["mode=agg"], timeout=7200)])
