"""Offline oracle for C14: recompute every logged digest with hashlib and every logged
SipHash value with an independent SipHash-2-4 written from the paper (and anchored on
the paper's test vector before it is trusted)."""
import glob
import hashlib
import os

M64 = (1 << 64) - 1


def mix64(x):
    x = (x + 0x9e3779b97f4a7c15) & M64
    x = ((x ^ (x >> 30)) * 0xbf58476d1ce4e5b9) & M64
    x = ((x ^ (x >> 27)) * 0x94d049bb133111eb) & M64
    return x ^ (x >> 31)


def gen_message(kind, seed, length):
    if kind == 1:
        return bytes(length)
    if kind == 2:
        return b"\xff" * length
    if kind in (0, 4):
        out = bytearray()
        for w in range((length + 7) // 8):
            out += mix64((seed + w) & M64).to_bytes(8, "little")
        out = bytes(out[:length])
        if kind == 4:
            out = bytes(b | 0x80 for b in out)
        return out
    plen = 1 + seed % 251
    pat = gen_message(0, seed, plen)
    return (pat * (length // plen + 1))[:length]


def rotl(x, b):
    return ((x << b) | (x >> (64 - b))) & M64


def siphash24(key, msg):
    k0 = int.from_bytes(key[0:8], "little")
    k1 = int.from_bytes(key[8:16], "little")
    v0 = k0 ^ 0x736f6d6570736575
    v1 = k1 ^ 0x646f72616e646f6d
    v2 = k0 ^ 0x6c7967656e657261
    v3 = k1 ^ 0x7465646279746573

    def rnd(v0, v1, v2, v3):
        v0 = (v0 + v1) & M64; v1 = rotl(v1, 13); v1 ^= v0; v0 = rotl(v0, 32)
        v2 = (v2 + v3) & M64; v3 = rotl(v3, 16); v3 ^= v2
        v0 = (v0 + v3) & M64; v3 = rotl(v3, 21); v3 ^= v0
        v2 = (v2 + v1) & M64; v1 = rotl(v1, 17); v1 ^= v2; v2 = rotl(v2, 32)
        return v0, v1, v2, v3

    n = len(msg)
    tail = msg[n - n % 8:] + bytes(7 - n % 8) + bytes([n & 0xff])
    for off in range(0, n - n % 8 + 8, 8):
        blk = msg[off:off + 8] if off + 8 <= n else tail
        m = int.from_bytes(blk, "little")
        v3 ^= m
        v0, v1, v2, v3 = rnd(v0, v1, v2, v3)
        v0, v1, v2, v3 = rnd(v0, v1, v2, v3)
        v0 ^= m
    v2 ^= 0xff
    for _ in range(4):
        v0, v1, v2, v3 = rnd(v0, v1, v2, v3)
    return v0 ^ v1 ^ v2 ^ v3


def selftest():
    # test vector of the SipHash paper (appendix A): key 00..0f, message 00..0e
    key = bytes(range(16))
    assert siphash24(key, bytes(range(15))) == 0xa129ca6149be45e5, "siphash reference broken"
    # first reference outputs of the reference implementation's vectors (little-endian bytes)
    assert siphash24(key, b"").to_bytes(8, "little").hex() == "310e0edd47db6f72"
    assert siphash24(key, bytes([0])).to_bytes(8, "little").hex() == "fd67dc93c539f874"
    assert hashlib.md5(b"abc").hexdigest() == "900150983cd24fb0d6963f7d28e17f72"


def check_logs(scratch):
    """returns (records, list of (key, detail))"""
    selftest()
    algos = {"md5": hashlib.md5, "sha1": hashlib.sha1, "sha256": hashlib.sha256,
             "sha512": hashlib.sha512}
    n = 0
    bad = []
    per = {}
    for p in sorted(glob.glob(os.path.join(scratch, "*.json.log"))):
        for line in open(p):
            if not line.endswith("\n"):
                continue  # torn last line of a worker that died
            f = line.split()
            if not f:
                continue
            if f[0] == "siphash":
                if len(f) != 6:
                    continue  # torn last line of a worker that died
                kind, seed, length, key, got = int(f[1]), int(f[2]), int(f[3]), bytes.fromhex(f[4]), f[5]
                want = "%016x" % siphash24(key, gen_message(kind, seed, length))
                if want != got:
                    bad.append(("C14:siphash:value",
                                "key=%s len=%d kind=%d seed=%d tlx=%s SipHash-2-4=%s"
                                % (f[4], length, kind, seed, got, want)))
            else:
                if len(f) != 5 or f[0] not in algos:
                    continue
                kind, seed, length, got = int(f[1]), int(f[2]), int(f[3]), f[4]
                if kind == 1 and length > (1 << 24):
                    h = algos[f[0]]()           # huge all-zero message: streamed
                    z = bytes(1 << 24)
                    for _ in range(length >> 24):
                        h.update(z)
                    h.update(bytes(length & ((1 << 24) - 1)))
                    want = h.hexdigest()
                else:
                    want = algos[f[0]](gen_message(kind, seed, length)).hexdigest()
                if want != got:
                    bad.append(("C14:%s:value" % f[0],
                                "len=%d kind=%d seed=%d tlx=%s hashlib=%s" % (length, kind, seed, got, want)))
            n += 1
            per[f[0]] = per.get(f[0], 0) + 1
    return n, per, bad
