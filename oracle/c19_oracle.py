"""Offline oracle for C19: recompute every logged hexdump / base64 record with python's
binascii / base64 (independent RFC 4648 implementations)."""
import base64
import binascii
import glob
import os


def check_logs(scratch):
    n = 0
    per = {}
    bad = []
    for p in sorted(glob.glob(os.path.join(scratch, "*.log"))):
        with open(p, "rb") as f:
            for line in f:
                if not line.endswith(b"\n"):
                    continue  # torn last line of a worker that died
                parts = line.rstrip(b"\n").split(b" ")
                if len(parts) != 4:
                    continue  # torn last line of a worker that died
                op, arg, hin, hout = parts
                try:
                    data = binascii.unhexlify(hin)
                    out = binascii.unhexlify(hout)
                except binascii.Error:
                    continue
                op = op.decode()
                n += 1
                per[op] = per.get(op, 0) + 1
                if op == "hexdump":
                    want = binascii.hexlify(data).upper()
                    ok = out == want
                elif op == "hexdump_lc":
                    want = binascii.hexlify(data)
                    ok = out == want
                elif op == "base64":
                    want = base64.b64encode(data)
                    ok = out == want
                elif op == "base64lb":
                    lb = int(arg)
                    want = base64.b64encode(data)
                    lines = out.split(b"\n")
                    ok = out.replace(b"\n", b"") == want and all(len(l) == lb for l in lines[:-1]) \
                        and len(lines[-1]) <= lb
                else:
                    continue
                if not ok and len(bad) < 20:
                    bad.append(("C19:oracle:" + op,
                                "%s of %d bytes %s...: tlx wrote %r, python gives %r"
                                % (op, len(data), hin[:48].decode(), out[:80], want[:80])))
    return n, per, bad
