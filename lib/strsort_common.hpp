// Shared string-multiset generators and output oracle of the string sorting checks
// (C03 sequential, C04 parallel).
#pragma once

#include <verif.hpp>

#include <cstring>
#include <string>
#include <vector>

namespace strsort {

using verif::Rng;

static const uint32_t CANARY = 0xC0FFEE11u;
//! property id used in violation keys ("C03" / "C04")
inline const char*& prop() { static const char* p = "C03"; return p; }

/******************************************************************************/
// string multiset shapes (NUL-free)

static std::string rnd_str(Rng& rng, size_t len, unsigned lo, unsigned hi) {
    std::string s(len, 0);
    for (auto& c : s) c = (char)(lo + rng.below(hi - lo + 1));
    return s;
}

static const char* shape_name(int s) {
    static const char* n[] = { "all-equal", "few-values", "shared-prefix", "prefix-chain", "many-empty", "length-1", "random-bytes", "high-bytes", "ended-runs", "tiny-alphabet" };
    return n[s];
}
enum { SHAPES = 10 };

static std::vector<std::string> gen_strings(Rng& rng, size_t n, int shape, bool big) {
    std::vector<std::string> v;
    v.reserve(n);
    switch (shape) {
    case 0: { std::string s = rnd_str(rng, rng.below(big ? 4 : 21), 1, 255); v.assign(n, s); break; }
    case 1: {
        std::vector<std::string> vals;
        size_t k = 2 + rng.below(3);
        std::string p = rnd_str(rng, rng.below(10), 'a', 'c');
        for (size_t i = 0; i < k; ++i) vals.push_back(p + rnd_str(rng, rng.below(4), 'a', 'b'));
        for (size_t i = 0; i < n; ++i) v.push_back(rng.pick(vals));
        break;
    }
    case 2: {
        if (big && rng.coin()) {
            // more than 65536 strings share their first two bytes (a nested 16-bit radix step), and
            // there are further non-empty buckets before and behind that one
            std::string p = rnd_str(rng, 2, 0x40, 0x90);
            for (size_t i = 0; i < n; ++i) {
                if (i * 10 < n * 7 || i < 66000) v.push_back(p + rnd_str(rng, rng.below(7), 1, 255));
                else v.push_back(rnd_str(rng, 1 + rng.below(6), 1, 255));
            }
            break;
        }
        static const size_t pl[] = { 1, 2, 3, 7, 8, 9, 15, 16, 17, 40 };
        std::string p = rnd_str(rng, big ? rng.pick(std::vector<size_t>{ 1, 2, 3 }) : rng.pick(pl), 1, 255);
        unsigned a = (unsigned)rng.pick(std::vector<unsigned>{ 2, 3, 26, 255 });
        for (size_t i = 0; i < n; ++i) v.push_back(p + rnd_str(rng, rng.below(7), 1, a));
        break;
    }
    case 3: {
        size_t cap = big ? 12 : 300;
        char c = (char)(1 + rng.below(255));
        for (size_t i = 0; i < n; ++i) v.push_back(std::string(i % (cap + 1), c));
        break;
    }
    case 4: for (size_t i = 0; i < n; ++i) v.push_back(rng.chance(2, 3) ? std::string() : rnd_str(rng, rng.below(5), 1, 255)); break;
    case 5: { unsigned a = 1 + (unsigned)rng.below(255); for (size_t i = 0; i < n; ++i) v.push_back(rnd_str(rng, 1, 1, a)); break; }
    case 6: for (size_t i = 0; i < n; ++i) v.push_back(rnd_str(rng, rng.below(13), 1, 255)); break;
    case 7: for (size_t i = 0; i < n; ++i) v.push_back(rnd_str(rng, rng.below(10), 0x80, 0xFF)); break;
    case 8: {
        // families: runs of >= 32 identical strings (a radix step whose strings all end), with and
        // without longer extensions and other families around them
        while (v.size() < n) {
            std::string p = rnd_str(rng, rng.below(5), 'a', 'd');
            size_t run = 30 + rng.below(40);
            for (size_t i = 0; i < run && v.size() < n; ++i) v.push_back(p);
            if (rng.coin()) for (size_t i = rng.below(4); i > 0 && v.size() < n; --i) v.push_back(p + rnd_str(rng, 1 + rng.below(3), 'a', 'd'));
        }
        break;
    }
    default: for (size_t i = 0; i < n; ++i) v.push_back(rnd_str(rng, rng.below(big ? 8 : 21), 'a', 'b')); break;
    }
    std::shuffle(v.begin(), v.end(), rng);
    return v;
}

/******************************************************************************/
// oracle

struct Ctx {
    std::string what;     // representation / entry / memory / lcp / shape / n
    std::string repr, entry;
    bool failed = false;
};

static void bad(Ctx& c, const std::string& cls, const std::string& detail) {
    if (c.failed) return;
    c.failed = true;
    verif::fail(std::string(prop()) + ":" + c.entry + ":" + c.repr + ":" + cls, c.what + ": " + detail);
}

static size_t true_lcp(const unsigned char* a, size_t la, const unsigned char* b, size_t lb) {
    size_t i = 0, m = std::min(la, lb);
    while (i < m && a[i] == b[i]) ++i;
    return i;
}
static bool le(const unsigned char* a, size_t la, const unsigned char* b, size_t lb) {
    int r = memcmp(a, b, std::min(la, lb));
    return r < 0 || (r == 0 && la <= lb);
}

//! views = the output sequence; checks order and lcp
static void check_order_lcp(Ctx& c, const std::vector<std::pair<const unsigned char*, size_t> >& out, const uint32_t* lcp, bool with_lcp) {
    uint64_t maxl = 0;
    for (size_t i = 1; i < out.size(); ++i) {
        if (!le(out[i - 1].first, out[i - 1].second, out[i].first, out[i].second)) {
            bad(c, "not-sorted", "position " + std::to_string(i) + ": x'" + verif::hex_bytes(out[i - 1].first, std::min<size_t>(out[i - 1].second, 24)) + "' precedes x'" + verif::hex_bytes(out[i].first, std::min<size_t>(out[i].second, 24)) + "'");
            return;
        }
        if (with_lcp) {
            size_t t = true_lcp(out[i - 1].first, out[i - 1].second, out[i].first, out[i].second);
            if (lcp[i] != t) {
                bad(c, "lcp", "lcp[" + std::to_string(i) + "] = " + std::to_string(lcp[i]) + ", true LCP of x'" + verif::hex_bytes(out[i - 1].first, std::min<size_t>(out[i - 1].second, 24)) + "' and x'" + verif::hex_bytes(out[i].first, std::min<size_t>(out[i].second, 24)) + "' is " + std::to_string(t));
                return;
            }
            if (t > maxl) maxl = t;
        }
    }
    if (with_lcp && lcp[out.size()] != CANARY) bad(c, "lcp-overrun", "the slot behind lcp[n-1] was overwritten with " + std::to_string(lcp[out.size()]));
    if (with_lcp) verif::count_max("lcp_seen", maxl);
}


} // namespace strsort
