// Shared harness runtime for the /verif monitors: PRNG, case loop, coverage
// counters, violation records, death callbacks (sanitizer / signal), JSON out.
//
// A harness defines
//     static void run_case(verif::Rng& rng, uint64_t index);
// and ends with  VERIF_MAIN(run_case)  (optionally VERIF_MAIN_INIT(run_case, init)).
//
// Command line (all optional):
//   --seed S --from I --count N --out FILE --verbose  key=value ...
// Case i draws from an Rng seeded by mix(S, i) only, so every case is replayable
// on its own with --from i --count 1.
#pragma once

#include <algorithm>
#include <atomic>
#include <csignal>
#include <cstdint>
#include <cstdio>
#include <cstdlib>
#include <cstring>
#include <exception>
#include <functional>
#include <map>
#include <mutex>
#include <set>
#include <sstream>
#include <string>
#include <fcntl.h>
#include <sys/mman.h>
#include <unistd.h>
#include <vector>

#if defined(__SANITIZE_ADDRESS__) || defined(__SANITIZE_THREAD__) || \
    defined(VERIF_UBSAN)
extern "C" void __sanitizer_set_death_callback(void (*callback)(void));
#define VERIF_HAVE_SANITIZER 1
#endif

namespace verif {

/******************************************************************************/
// PRNG: splitmix64 seeding + xoshiro256**

static inline uint64_t mix64(uint64_t x) {
    x += 0x9e3779b97f4a7c15ull;
    x = (x ^ (x >> 30)) * 0xbf58476d1ce4e5b9ull;
    x = (x ^ (x >> 27)) * 0x94d049bb133111ebull;
    return x ^ (x >> 31);
}

static inline uint64_t hash_combine(uint64_t a, uint64_t b) {
    return mix64(a ^ (mix64(b) + 0x9e3779b97f4a7c15ull + (a << 6) + (a >> 2)));
}

static inline uint64_t hash_str(const std::string& s) {
    uint64_t h = 1469598103934665603ull;
    for (unsigned char c : s) { h ^= c; h *= 1099511628211ull; }
    return mix64(h);
}

struct Rng {
    uint64_t s[4];
    explicit Rng(uint64_t seed = 1) { reseed(seed); }
    void reseed(uint64_t seed) {
        for (int i = 0; i < 4; ++i) { seed = mix64(seed + i); s[i] = seed; }
    }
    static uint64_t rotl(uint64_t x, int k) { return (x << k) | (x >> (64 - k)); }
    uint64_t next() {
        uint64_t r = rotl(s[1] * 5, 7) * 9, t = s[1] << 17;
        s[2] ^= s[0]; s[3] ^= s[1]; s[1] ^= s[2]; s[0] ^= s[3];
        s[2] ^= t; s[3] = rotl(s[3], 45);
        return r;
    }
    //! uniform in [0, n), n > 0
    uint64_t below(uint64_t n) { return n <= 1 ? 0 : next() % n; }
    //! uniform in [a, b]
    int64_t range(int64_t a, int64_t b) {
        return a + static_cast<int64_t>(below(static_cast<uint64_t>(b - a) + 1));
    }
    bool chance(unsigned num, unsigned den) { return below(den) < num; }
    bool coin() { return next() & 1; }
    template <typename T>
    const T& pick(const std::vector<T>& v) { return v[below(v.size())]; }
    template <typename T, size_t N>
    const T& pick(const T (&v)[N]) { return v[below(N)]; }
    // for std::shuffle
    using result_type = uint64_t;
    static constexpr uint64_t min() { return 0; }
    static constexpr uint64_t max() { return ~0ull; }
    uint64_t operator()() { return next(); }
};

/******************************************************************************/
// global run state

struct Violation {
    std::string key, detail;
    uint64_t seed, index;
};

struct State {
    uint64_t seed = 1, from = 0, count = 1;
    std::string out;
    bool verbose = false;
    std::map<std::string, std::string> params;

    std::atomic<uint64_t> cur_index{ 0 };
    uint64_t evaluations = 0;
    std::mutex mtx;
    std::map<std::string, uint64_t> counters;
    std::map<std::string, uint64_t> cover;
    std::set<uint64_t> distinct;
    std::vector<std::string> samples;
    std::vector<Violation> violations;
    std::atomic<bool> case_failed{ false };
    bool dumped = false;
    bool exhaustive = false;
    size_t max_violations = 25;
    size_t max_distinct_dump = 50000;   // per worker; the rest is reported as a count only
};

inline State& st() { static State s; return s; }

inline std::string param(const std::string& k, const std::string& dflt = "") {
    auto it = st().params.find(k);
    return it == st().params.end() ? dflt : it->second;
}
inline long long param_int(const std::string& k, long long dflt) {
    auto it = st().params.find(k);
    return it == st().params.end() ? dflt : std::strtoll(it->second.c_str(), nullptr, 0);
}

//! numeric statistic (sum)
inline void count(const std::string& name, uint64_t n = 1) {
    std::lock_guard<std::mutex> l(st().mtx);
    st().counters[name] += n;
}
//! running maximum statistic
inline void count_max(const std::string& name, uint64_t v) {
    std::lock_guard<std::mutex> l(st().mtx);
    uint64_t& r = st().counters["max:" + name];
    if (v > r) r = v;
}
//! coverage class: distinct_nontrivial = number of distinct classes seen
inline void cover(const std::string& cls, uint64_t n = 1) {
    std::lock_guard<std::mutex> l(st().mtx);
    st().cover[cls] += n;
}
//! hashed distinct-case set (e.g. schedule hashes)
inline void distinct(uint64_t h) {
    std::lock_guard<std::mutex> l(st().mtx);
    st().distinct.insert(h);
}
inline void sample(const std::string& s, size_t keep = 3) {
    std::lock_guard<std::mutex> l(st().mtx);
    if (st().samples.size() < keep) st().samples.push_back(s);
}
inline bool want_sample(size_t keep = 3) {
    std::lock_guard<std::mutex> l(st().mtx);
    return st().samples.size() < keep;
}
inline void set_exhaustive(bool b) { st().exhaustive = b; }

//! oracle failure for the current case
inline void fail(const std::string& key, const std::string& detail) {
    std::lock_guard<std::mutex> l(st().mtx);
    st().case_failed = true;
    if (st().violations.size() < st().max_violations)
        st().violations.push_back(
            Violation{ key, detail, st().seed, st().cur_index.load() });
    if (st().verbose)
        fprintf(stderr, "VERIF-FAIL key=%s index=%llu\n%s\n", key.c_str(),
                (unsigned long long)st().cur_index.load(), detail.c_str());
}
inline bool case_failed() { return st().case_failed.load(); }

/******************************************************************************/
// JSON output

inline std::string jstr(const std::string& s) {
    std::string o = "\"";
    for (unsigned char c : s) {
        switch (c) {
        case '"': o += "\\\""; break;
        case '\\': o += "\\\\"; break;
        case '\n': o += "\\n"; break;
        case '\r': o += "\\r"; break;
        case '\t': o += "\\t"; break;
        default:
            if (c < 0x20 || c >= 0x7f) {
                char b[8];
                snprintf(b, sizeof(b), "\\u%04x", c);
                o += b;
            }
            else
                o += static_cast<char>(c);
        }
    }
    return o + "\"";
}

inline void dump_out(bool died) {
    State& s = st();
    if (s.out.empty() || s.dumped) return;
    s.dumped = true;
    std::string tmp = s.out + ".tmp";
    FILE* f = fopen(tmp.c_str(), "w");
    if (!f) return;
    fprintf(f, "{\"seed\":%llu,\"from\":%llu,\"count\":%llu,\"evaluations\":%llu,"
            "\"died\":%s,\"died_index\":%llu,\"exhaustive\":%s,\n",
            (unsigned long long)s.seed, (unsigned long long)s.from,
            (unsigned long long)s.count, (unsigned long long)s.evaluations,
            died ? "true" : "false", (unsigned long long)s.cur_index.load(),
            s.exhaustive ? "true" : "false");
    fprintf(f, "\"counters\":{");
    bool first = true;
    for (auto& kv : s.counters) {
        fprintf(f, "%s%s:%llu", first ? "" : ",", jstr(kv.first).c_str(),
                (unsigned long long)kv.second);
        first = false;
    }
    fprintf(f, "},\n\"cover\":{");
    first = true;
    for (auto& kv : s.cover) {
        fprintf(f, "%s%s:%llu", first ? "" : ",", jstr(kv.first).c_str(),
                (unsigned long long)kv.second);
        first = false;
    }
    fprintf(f, "},\n\"distinct_count\":%llu,\"distinct\":[",
            (unsigned long long)s.distinct.size());
    first = true;
    size_t n = 0;
    for (uint64_t h : s.distinct) {
        if (n++ >= s.max_distinct_dump) break;
        fprintf(f, "%s\"%llx\"", first ? "" : ",", (unsigned long long)h);
        first = false;
    }
    fprintf(f, "],\n\"samples\":[");
    first = true;
    for (auto& x : s.samples) {
        fprintf(f, "%s%s", first ? "" : ",", jstr(x).c_str());
        first = false;
    }
    fprintf(f, "],\n\"violations\":[");
    first = true;
    for (auto& v : s.violations) {
        fprintf(f, "%s{\"key\":%s,\"detail\":%s,\"seed\":%llu,\"index\":%llu}",
                first ? "" : ",", jstr(v.key).c_str(), jstr(v.detail).c_str(),
                (unsigned long long)v.seed, (unsigned long long)v.index);
        first = false;
    }
    fprintf(f, "]}\n");
    fclose(f);
    rename(tmp.c_str(), s.out.c_str());
}

/******************************************************************************/
// death handling: tell the driver which case was running

inline void death_note() {
    char buf[160];
    int n = snprintf(buf, sizeof(buf), "\nVERIF-DEATH seed=%llu index=%llu\n",
                     (unsigned long long)st().seed,
                     (unsigned long long)st().cur_index.load());
    ssize_t r = write(2, buf, n);
    (void)r;
}

//! what the harness is calling right now (static string), for terminate/abort keys
inline const char*& context() { static const char* c = ""; return c; }
inline const char*& property_id() { static const char* c = "C??"; return c; }

//! optional harness callback printing the operation trace of the running case when it dies
inline void (*&death_extra())() { static void (*f)() = nullptr; return f; }
inline void run_death_extra() {
    static bool done = false;
    if (done || !death_extra()) return;
    done = true;
    ssize_t r = write(2, "\nVERIF-TRACE ", 13);
    (void)r;
    death_extra()();
    r = write(2, "\n", 1);
}
//! convenience: harnesses point this at the trace of the running history
inline const std::vector<std::string>*& live_trace() { static const std::vector<std::string>* t = nullptr; return t; }
inline void print_live_trace() {
    const std::vector<std::string>* t = live_trace();
    if (!t) return;
    size_t from = t->size() > 60 ? t->size() - 60 : 0;
    for (size_t i = from; i < t->size(); ++i) fprintf(stderr, "%s; ", (*t)[i].c_str());
    fflush(stderr);
}

inline void terminate_handler() {
    char buf[256];
    int n = snprintf(buf, sizeof(buf), "\nVERIF-KEY %s:terminate:%s\n", property_id(), context());
    ssize_t r = write(2, buf, n);
    (void)r;
    death_note();
    run_death_extra();
    if (st().mtx.try_lock()) {
        st().mtx.unlock();
        dump_out(true);
    }
    _exit(98);
}

inline void death_callback() {
    death_note();
    run_death_extra();
    // best effort: keep the counters of the cases that ran before
    if (st().mtx.try_lock()) {
        st().mtx.unlock();
        dump_out(true);
    }
}

inline void signal_handler(int sig) {
    death_note();
    char buf[64];
    int n = snprintf(buf, sizeof(buf), "VERIF-SIGNAL %d\n", sig);
    ssize_t r = write(2, buf, n);
    (void)r;
    run_death_extra();
    if (st().mtx.try_lock()) {
        st().mtx.unlock();
        dump_out(true);
    }
    _exit(sig == SIGABRT ? 98 : 99);
}

inline void install_death_handlers() {
#ifdef VERIF_HAVE_SANITIZER
    __sanitizer_set_death_callback(death_callback);
#endif
    std::set_terminate(terminate_handler);
    // abort() (assert) is not routed through the sanitizer death callback
    signal(SIGABRT, signal_handler);
#if !defined(__SANITIZE_ADDRESS__) && !defined(__SANITIZE_THREAD__)
    signal(SIGSEGV, signal_handler);
    signal(SIGBUS, signal_handler);
    signal(SIGFPE, signal_handler);
    signal(SIGILL, signal_handler);
#endif
}

/******************************************************************************/
// main loop

using CaseFn = std::function<void(Rng&, uint64_t)>;

inline int main_loop(int argc, char** argv, CaseFn run_case,
                     std::function<void()> init = nullptr,
                     std::function<void()> finish = nullptr) {
    State& s = st();
    for (int i = 1; i < argc; ++i) {
        std::string a = argv[i];
        auto need = [&](const char* n) -> const char* {
            if (i + 1 >= argc) { fprintf(stderr, "missing value for %s\n", n); exit(2); }
            return argv[++i];
        };
        if (a == "--seed") s.seed = strtoull(need("--seed"), nullptr, 0);
        else if (a == "--from") s.from = strtoull(need("--from"), nullptr, 0);
        else if (a == "--count") s.count = strtoull(need("--count"), nullptr, 0);
        else if (a == "--out") s.out = need("--out");
        else if (a == "--verbose") s.verbose = true;
        else if (a.find('=') != std::string::npos) {
            size_t p = a.find('=');
            s.params[a.substr(0, p)] = a.substr(p + 1);
        }
        else { fprintf(stderr, "unknown argument %s\n", a.c_str()); return 2; }
    }
    install_death_handlers();
    s.cur_index = s.from;
    // the index of the running case is mirrored into a shared mapping of
    // <out>.cur, so the driver knows it however the process dies (UBSan's
    // runtime and SIGKILL bypass every callback)
    volatile uint64_t* cur_map = nullptr;
    if (!s.out.empty()) {
        int fd = open((s.out + ".cur").c_str(), O_RDWR | O_CREAT | O_TRUNC, 0644);
        if (fd >= 0 && ftruncate(fd, 16) == 0) {
            void* m = mmap(nullptr, 16, PROT_READ | PROT_WRITE, MAP_SHARED, fd, 0);
            if (m != MAP_FAILED) cur_map = static_cast<volatile uint64_t*>(m);
        }
        if (fd >= 0) close(fd);
    }
    if (init) init();
    for (uint64_t i = s.from; i < s.from + s.count; ++i) {
        s.cur_index = i;
        if (cur_map) { cur_map[0] = i; cur_map[1] = 1; }
        s.case_failed = false;
        Rng rng(hash_combine(s.seed, i));
        run_case(rng, i);
        ++s.evaluations;
        if (s.violations.size() >= s.max_violations) break;
    }
    if (finish) finish();
    if (cur_map) cur_map[1] = 2;
    dump_out(false);
    if (s.verbose)
        fprintf(stderr, "VERIF-DONE evaluations=%llu violations=%zu\n",
                (unsigned long long)s.evaluations, s.violations.size());
    return s.violations.empty() ? 0 : 1;
}

// small helpers for details / samples
template <typename It>
inline std::string join_range(It b, It e, const char* sep = ",") {
    std::ostringstream os;
    bool first = true;
    for (; b != e; ++b) { if (!first) os << sep; os << *b; first = false; }
    return os.str();
}

inline std::string hex_bytes(const void* p, size_t n) {
    static const char* d = "0123456789abcdef";
    std::string o;
    const unsigned char* c = static_cast<const unsigned char*>(p);
    for (size_t i = 0; i < n; ++i) { o += d[c[i] >> 4]; o += d[c[i] & 15]; }
    return o;
}
inline std::string hex_bytes(const std::string& s) { return hex_bytes(s.data(), s.size()); }

} // namespace verif


// Relational operators for harness element types that are meant to be ordered ONLY through the
// comparator handed to tlx. They exist, so that library code which (wrongly) compares elements with
// operator< instead of the comparator still compiles, but they order by a scrambled key that agrees
// with neither the ascending nor the descending comparators the harnesses use - such a mix-up then
// shows up as a wrong result instead of a build failure of the harness.
namespace verif {
inline unsigned scramble_key(long long k) { return static_cast<unsigned>(k) * 2654435761u + 0x9e3779b9u; }
} // namespace verif
#define VERIF_MISLEADING_ORDER(T, field)                                                                        \
    inline bool operator<(const T& a, const T& b) { return verif::scramble_key(a.field) < verif::scramble_key(b.field); }   \
    inline bool operator>(const T& a, const T& b) { return b < a; }                                             \
    inline bool operator<=(const T& a, const T& b) { return !(b < a); }                                         \
    inline bool operator>=(const T& a, const T& b) { return !(a < b); }
#define VERIF_MISLEADING_EQUALITY(T, field)                                                                     \
    inline bool operator==(const T& a, const T& b) { return a.field == b.field; }                               \
    inline bool operator!=(const T& a, const T& b) { return !(a == b); }

#define VERIF_MAIN(fn) \
    int main(int argc, char** argv) { return verif::main_loop(argc, argv, fn); }
#define VERIF_MAIN_INIT(fn, init) \
    int main(int argc, char** argv) { return verif::main_loop(argc, argv, fn, init); }
