// Lifetime ledger element + arena-checking allocator (shared by C02, C06, C16, C17).
//
// Tracked: a value type that owns heap memory (so ASan sees every lifetime error
// as a heap error) and registers every constructed object in a ledger keyed by
// address. Construction over a live object, destruction / assignment / copy of a
// non-live object are violations, reported through verif::fail() (and counted).
//
// ArenaAlloc<T>: stateful allocator; every block remembers the arena that handed
// it out. Violations: deallocate through another arena, of an unknown pointer,
// with a wrong size, or while Tracked objects are still alive inside the block.
#pragma once

#include <verif.hpp>

#include <atomic>
#include <memory>
#include <ostream>
#include <mutex>
#include <unordered_map>
#include <unordered_set>

namespace verif {

struct Ledger {
    std::mutex mtx;
    std::unordered_set<const void*> live;
    uint64_t constructed = 0, destroyed = 0;                 // under mtx
    std::atomic<uint64_t> copied{ 0 }, moved{ 0 }, assigned{ 0 };   // statistics, updated outside the lock
    uint64_t errors = 0;
    std::string prop = "C??";
    static Ledger& get() { static Ledger l; return l; }
    void error(const char* what, const void* p) {
        ++errors;
        char buf[64];
        snprintf(buf, sizeof(buf), "%p", p);
        verif::fail(prop + ":lifetime:" + what, std::string(what) + " at " + buf);
    }
    void ctor(const void* p) {
        std::lock_guard<std::mutex> l(mtx);
        ++constructed;
        if (!live.insert(p).second) error("constructed-over-live-object", p);
    }
    void dtor(const void* p) {
        std::lock_guard<std::mutex> l(mtx);
        ++destroyed;
        if (!live.erase(p)) error("destroyed-non-live-object", p);
    }
    void use(const void* p, const char* what) {
        std::lock_guard<std::mutex> l(mtx);
        if (!live.count(p)) error(what, p);
    }
    size_t live_count() {
        std::lock_guard<std::mutex> l(mtx);
        return live.size();
    }
    size_t live_in(const void* b, size_t bytes) {
        std::lock_guard<std::mutex> l(mtx);
        size_t n = 0;
        const char* lo = static_cast<const char*>(b);
        // blocks are small; probing every possible object start would be O(bytes),
        // so iterate the ledger only if it is smaller
        if (live.size() < bytes) {
            for (const void* p : live) {
                const char* c = static_cast<const char*>(p);
                if (c >= lo && c < lo + bytes) ++n;
            }
        }
        else {
            for (size_t i = 0; i < bytes; ++i) n += live.count(lo + i);
        }
        return n;
    }
};

struct Tracked {
    int key;
    int payload;
    int* heap;   // owns memory: makes lifetime errors heap errors under ASan
    Tracked() : key(0), payload(0), heap(new int(0)) { Ledger::get().ctor(this); }
    explicit Tracked(int k, int p = 0) : key(k), payload(p), heap(new int(k)) { Ledger::get().ctor(this); }
    Tracked(const Tracked& o) : key(o.key), payload(o.payload), heap(nullptr) {
        Ledger::get().use(&o, "copy-from-non-live-object");
        heap = new int(*o.heap);
        Ledger::get().ctor(this);
        ++Ledger::get().copied;
    }
    //! key/payload of a moved-from object: code that goes on using a moved-from element as if it still
    //! held its value is then visibly wrong (like an emptied std::string)
    static const int MOVED_FROM = -771771;
    Tracked(Tracked&& o) noexcept : key(o.key), payload(o.payload), heap(nullptr) {
        Ledger::get().use(&o, "move-from-non-live-object");
        heap = o.heap;
        o.heap = new int(MOVED_FROM);   // moved-from stays a valid (destructible, assignable) object
        o.key = MOVED_FROM; o.payload = MOVED_FROM;
        Ledger::get().ctor(this);
        ++Ledger::get().moved;
    }
    Tracked& operator=(const Tracked& o) {
        Ledger::get().use(this, "assign-to-non-live-object");
        Ledger::get().use(&o, "assign-from-non-live-object");
        if (this != &o) { key = o.key; payload = o.payload; *heap = *o.heap; }
        ++Ledger::get().assigned;
        return *this;
    }
    Tracked& operator=(Tracked&& o) noexcept {
        Ledger::get().use(this, "assign-to-non-live-object");
        Ledger::get().use(&o, "assign-from-non-live-object");
        if (this != &o) { key = o.key; payload = o.payload; std::swap(heap, o.heap); *o.heap = MOVED_FROM; o.key = MOVED_FROM; o.payload = MOVED_FROM; }
        ++Ledger::get().assigned;
        return *this;
    }
    ~Tracked() {
        Ledger::get().dtor(this);
        delete heap;
        heap = nullptr;
    }
    bool operator==(const Tracked& o) const { return key == o.key && payload == o.payload; }
    bool operator!=(const Tracked& o) const { return !(*this == o); }
    bool operator<(const Tracked& o) const { return key < o.key; }
};

inline std::ostream& operator<<(std::ostream& os, const Tracked& t) { return os << "T" << t.key; }

/******************************************************************************/

struct ArenaRegistry {
    struct Block { int arena; size_t bytes; };
    std::mutex mtx;
    std::unordered_map<const void*, Block> blocks;
    uint64_t allocs = 0, frees = 0, errors = 0;
    std::string prop = "C??";
    bool check_tracked = true;
    static ArenaRegistry& get() { static ArenaRegistry r; return r; }
    void error(const std::string& what, const std::string& detail) {
        ++errors;
        verif::fail(prop + ":alloc:" + what, detail);
    }
    void on_alloc(const void* p, int arena, size_t bytes) {
        std::lock_guard<std::mutex> l(mtx);
        ++allocs;
        blocks[p] = Block{ arena, bytes };
    }
    void on_free(const void* p, int arena, size_t bytes) {
        Block b;
        {
            std::lock_guard<std::mutex> l(mtx);
            ++frees;
            auto it = blocks.find(p);
            if (it == blocks.end()) { error("free-of-unknown-block", "deallocate of a pointer this allocator family never returned (double free?)"); return; }
            b = it->second;
            blocks.erase(it);
        }
        if (b.arena != arena)
            error("wrong-arena", "block from arena " + std::to_string(b.arena) + " returned to arena " + std::to_string(arena));
        if (b.bytes != bytes)
            error("wrong-size", "block of " + std::to_string(b.bytes) + " bytes deallocated as " + std::to_string(bytes));
        if (check_tracked) {
            size_t n = Ledger::get().live_in(p, b.bytes);
            if (n) error("storage-released-with-live-elements", std::to_string(n) + " element(s) not destroyed before their storage was released");
        }
    }
    size_t live_blocks() {
        std::lock_guard<std::mutex> l(mtx);
        return blocks.size();
    }
    size_t live_blocks_of(int arena) {
        std::lock_guard<std::mutex> l(mtx);
        size_t n = 0;
        for (auto& kv : blocks) n += kv.second.arena == arena;
        return n;
    }
};

template <typename T>
struct ArenaAlloc {
    typedef T value_type;
    typedef size_t size_type;
    typedef std::ptrdiff_t difference_type;
    typedef T* pointer;
    typedef const T* const_pointer;
    typedef T& reference;
    typedef const T& const_reference;
    int arena;
    ArenaAlloc(int a = 0) noexcept : arena(a) {}
    template <typename U>
    ArenaAlloc(const ArenaAlloc<U>& o) noexcept : arena(o.arena) {}
    T* allocate(size_t n) {
        T* p = static_cast<T*>(::operator new(n * sizeof(T)));
        ArenaRegistry::get().on_alloc(p, arena, n * sizeof(T));
        return p;
    }
    void deallocate(T* p, size_t n) noexcept {
        // deallocate(nullptr, n) is what std::allocator tolerates and several tlx containers
        // do for an unallocated state; it releases nothing, so it is not an accounting event
        if (p == nullptr) return;
        ArenaRegistry::get().on_free(p, arena, n * sizeof(T));
        ::operator delete(p);
    }
    template <typename U> struct rebind { typedef ArenaAlloc<U> other; };
    template <typename U> bool operator==(const ArenaAlloc<U>& o) const { return arena == o.arena; }
    template <typename U> bool operator!=(const ArenaAlloc<U>& o) const { return arena != o.arena; }
};

} // namespace verif
