// Shared generator + oracle for the multiway merge checks (C05 sequential, C07 parallel).
#pragma once

#include <verif.hpp>
#include <tracked.hpp>

#include <atomic>
#include <string>
#include <vector>

namespace mergechk {

using verif::Rng;

struct Elem8 {   // 8 bytes -> copy loser trees
    int key;
    uint16_t seq, pos;
    void set(int k, unsigned s, unsigned p) { key = k; seq = (uint16_t)s; pos = (uint16_t)p; }
    unsigned get_seq() const { return seq; }
    unsigned get_pos() const { return pos; }
    static const char* name() { return "Elem8"; }
};
struct Elem32 {  // 32 bytes -> pointer loser trees
    int key;
    unsigned seq, pos;
    int pad[5];
    void set(int k, unsigned s, unsigned p) { key = k; seq = s; pos = p; for (int& x : pad) x = 0x11; }
    unsigned get_seq() const { return seq; }
    unsigned get_pos() const { return pos; }
    static const char* name() { return "Elem32"; }
};
struct ElemStr { // heap-owning -> pointer loser trees; lifetime errors become ASan reports
    int key;
    unsigned seq, pos;
    std::string payload;
    void set(int k, unsigned s, unsigned p) {
        key = k; seq = s; pos = p;
        payload = "payload-" + std::to_string(s) + "-" + std::to_string(p) + "-long-enough-for-the-heap";
    }
    unsigned get_seq() const { return seq; }
    unsigned get_pos() const { return pos; }
    static const char* name() { return "ElemStr"; }
};

VERIF_MISLEADING_ORDER(Elem8, key)
VERIF_MISLEADING_EQUALITY(Elem8, key)
VERIF_MISLEADING_ORDER(Elem32, key)
VERIF_MISLEADING_EQUALITY(Elem32, key)
VERIF_MISLEADING_ORDER(ElemStr, key)
VERIF_MISLEADING_EQUALITY(ElemStr, key)

struct ElemT16 {  // 16 bytes and non-trivial -> copy loser trees holding ledger-registered, heap-owning elements
    int key;
    uint16_t seq, pos;
    int* heap;
    // a default-constructed element is a placeholder, not an element of any input: its key is a poison
    // value, and the comparators below record every call that sees one
    static const int PLACEHOLDER = -555555;
    static std::atomic<unsigned>& placeholder_compares() { static std::atomic<unsigned> n{ 0 }; return n; }
    ElemT16() : key(PLACEHOLDER), seq(0), pos(0), heap(new int(0)) { verif::Ledger::get().ctor(this); }
    ElemT16(const ElemT16& o) : key(o.key), seq(o.seq), pos(o.pos), heap(nullptr) {
        verif::Ledger::get().use(&o, "copy-from-non-live-object");
        heap = new int(*o.heap);
        verif::Ledger::get().ctor(this);
    }
    ElemT16& operator=(const ElemT16& o) {
        verif::Ledger::get().use(this, "assign-to-non-live-object");
        verif::Ledger::get().use(&o, "assign-from-non-live-object");
        if (this != &o) { key = o.key; seq = o.seq; pos = o.pos; *heap = *o.heap; }
        return *this;
    }
    ~ElemT16() { verif::Ledger::get().dtor(this); delete heap; heap = nullptr; }
    void set(int k, unsigned s, unsigned p) { key = k; seq = (uint16_t)s; pos = (uint16_t)p; *heap = k; }
    unsigned get_seq() const { return seq; }
    unsigned get_pos() const { return pos; }
    static const char* name() { return "ElemT16"; }
};
static_assert(sizeof(ElemT16) == 16, "ElemT16 is meant to select the copy-based loser trees");
VERIF_MISLEADING_ORDER(ElemT16, key)
VERIF_MISLEADING_EQUALITY(ElemT16, key)

template <typename E> inline void cmp_sees(const E&, const E&) { }
inline void cmp_sees(const ElemT16& a, const ElemT16& b) {
    if (a.key == ElemT16::PLACEHOLDER || b.key == ElemT16::PLACEHOLDER)
        ElemT16::placeholder_compares().fetch_add(1, std::memory_order_relaxed);
}
template <typename E> struct KeyLess { bool operator()(const E& a, const E& b) const { cmp_sees(a, b); return a.key < b.key; } };
template <typename E> struct KeyGreater { bool operator()(const E& a, const E& b) const { cmp_sees(a, b); return a.key > b.key; } };

static const int INF = 1 << 30;
static const unsigned CANARY_SEQ = 0xfffe;

struct Shape {
    unsigned k = 0;
    bool descending = false;
    int universe = 4;
    std::vector<std::vector<int> > keys;   // sorted per sequence
    size_t total = 0;
    size_t length = 0;
    unsigned n_empty = 0;
    const char* len_class = "";
    std::string str() const {
        std::string s = "k=" + std::to_string(k) + (descending ? " desc" : " asc") + " length=" +
                        std::to_string(length) + "/" + std::to_string(total);
        size_t shown = 0;
        for (auto& v : keys) {
            if (shown > 400) { s += " ..."; break; }
            s += " [";
            for (size_t i = 0; i < v.size() && i < 40; ++i) s += (i ? "," : "") + std::to_string(v[i]);
            if (v.size() > 40) s += ",...(" + std::to_string(v.size()) + ")";
            s += "]";
            shown += std::min<size_t>(v.size(), 40);
        }
        return s;
    }
};

inline Shape make_shape(Rng& rng, unsigned max_k = 64, size_t dominant_max = 3000) {
    Shape sh;
    static const std::vector<unsigned> ks = { 0, 1, 2, 2, 3, 3, 3, 4, 4, 4, 5, 5, 6, 7, 8, 9, 16, 17, 33, 64 };
    do { sh.k = rng.pick(ks); } while (sh.k > max_k);
    sh.descending = rng.coin();
    sh.universe = (int)rng.pick(std::vector<int>{ 1, 2, 3, 4, 6, 50, 100000 });
    size_t maxlen = rng.pick(std::vector<size_t>{ 1, 3, 8, 40 });
    unsigned p_empty = (unsigned)rng.pick(std::vector<int>{ 0, 0, 1, 3 });
    sh.keys.resize(sh.k);
    for (auto& v : sh.keys) {
        size_t len = rng.below(10) < p_empty ? 0 : rng.below(maxlen + 1);
        v.resize(len);
        for (auto& x : v) x = (int)rng.below(sh.universe);
    }
    if (sh.k && rng.chance(1, 8)) {   // one dominant sequence
        auto& v = sh.keys[rng.below(sh.k)];
        v.resize(200 + rng.below(dominant_max));
        for (auto& x : v) x = (int)rng.below(sh.universe);
    }
    if (sh.k && rng.chance(1, 10)) {  // identical last elements (ties in prepare_unguarded)
        for (auto& v : sh.keys) if (!v.empty()) v.back() = sh.universe;
    }
    for (auto& v : sh.keys) {
        std::sort(v.begin(), v.end());
        if (sh.descending) std::reverse(v.begin(), v.end());
        sh.total += v.size();
        sh.n_empty += v.empty();
    }
    switch (rng.below(6)) {
    case 0: sh.length = 0; sh.len_class = "len=0"; break;
    case 1: sh.length = sh.total ? 1 : 0; sh.len_class = "len=1"; break;
    case 2: sh.length = sh.total ? sh.total - 1 : 0; sh.len_class = "len=total-1"; break;
    case 3: case 4: sh.length = sh.total; sh.len_class = "len=total"; break;
    default: sh.length = rng.below(sh.total + 1); sh.len_class = "len=random"; break;
    }
    return sh;
}

//! inputs with one sentinel slot behind every sequence
template <typename E>
struct Inputs {
    std::vector<std::vector<E> > store;                       // real elements + 1 sentinel slot
    std::vector<std::pair<E*, E*> > seqs;                     // what is handed to tlx
    std::vector<E*> begins, ends;
    bool has_slot = true;
    //! with_sentinel_slot = false: the sequences end exactly at the end of their heap block, so an
    //! entry point that is not entitled to a sentinel and still reads one is an ASan report
    void build(const Shape& sh, bool with_sentinel_slot = true) {
        has_slot = with_sentinel_slot;
        store.resize(sh.k);
        seqs.resize(sh.k);
        begins.resize(sh.k);
        ends.resize(sh.k);
        for (unsigned s = 0; s < sh.k; ++s) {
            std::vector<E> v(sh.keys[s].size() + (with_sentinel_slot ? 1 : 0));
            store[s].swap(v);   // capacity == size
            for (size_t p = 0; p < sh.keys[s].size(); ++p) store[s][p].set(sh.keys[s][p], s, (unsigned)p);
            if (with_sentinel_slot) store[s].back().set(sh.descending ? -INF : INF, CANARY_SEQ, 0);   // strictly beyond all real keys
            begins[s] = store[s].data();
            ends[s] = store[s].data() + sh.keys[s].size();
            seqs[s] = { begins[s], ends[s] };
        }
    }
};

//! reference: the stable merge (key, seq, pos) cut at length
inline std::vector<std::pair<unsigned, unsigned> > reference(const Shape& sh) {
    struct R { int key; unsigned seq, pos; };
    std::vector<R> all;
    for (unsigned s = 0; s < sh.k; ++s)
        for (size_t p = 0; p < sh.keys[s].size(); ++p) all.push_back({ sh.keys[s][p], s, (unsigned)p });
    if (sh.descending) std::stable_sort(all.begin(), all.end(), [](const R& a, const R& b) { return a.key > b.key; });
    else std::stable_sort(all.begin(), all.end(), [](const R& a, const R& b) { return a.key < b.key; });
    std::vector<std::pair<unsigned, unsigned> > out;
    for (size_t i = 0; i < sh.length; ++i) out.push_back({ all[i].seq, all[i].pos });
    return out;
}

//! checks output / return / advance / canary. returns "" or the failure class.
template <typename E>
inline std::string check_result(const Shape& sh, const Inputs<E>& in, const std::vector<E>& out,
                                size_t returned, bool stable, std::string& detail) {
    if (unsigned c = ElemT16::placeholder_compares().exchange(0)) {
        detail = "the comparator was called " + std::to_string(c) + " time(s) with a default-constructed placeholder (not an element of any input, not the sentinel)";
        return "comparator-called-on-placeholder";
    }
    auto ref = reference(sh);
    if (returned != sh.length) { detail = "returned target+" + std::to_string(returned); return "return-value"; }
    std::vector<unsigned> taken(sh.k, 0);
    for (size_t i = 0; i < sh.length; ++i) {
        const E& e = out[i];
        unsigned rs = ref[i].first, rp = ref[i].second;
        if (e.get_seq() >= sh.k || e.get_pos() >= sh.keys[e.get_seq()].size()) {
            detail = "output[" + std::to_string(i) + "] is not an input element (seq " + std::to_string(e.get_seq()) + ")";
            return "foreign-element";
        }
        if (e.key != sh.keys[rs][rp]) {
            detail = "output[" + std::to_string(i) + "] key " + std::to_string(e.key) + ", expected " + std::to_string(sh.keys[rs][rp]);
            return "wrong-key";
        }
        if (e.key != sh.keys[e.get_seq()][e.get_pos()]) { detail = "element corrupted"; return "corrupt-element"; }
        if (e.get_pos() != taken[e.get_seq()]) {
            detail = "output[" + std::to_string(i) + "] is (seq " + std::to_string(e.get_seq()) + ", pos " + std::to_string(e.get_pos()) +
                     ") but that sequence has contributed " + std::to_string(taken[e.get_seq()]) + " elements so far";
            return "not-a-prefix";
        }
        ++taken[e.get_seq()];
        if (stable && (e.get_seq() != rs || e.get_pos() != rp)) {
            detail = "output[" + std::to_string(i) + "] is (seq " + std::to_string(e.get_seq()) + ", pos " + std::to_string(e.get_pos()) +
                     "), stable merge gives (seq " + std::to_string(rs) + ", pos " + std::to_string(rp) + ")";
            return "unstable";
        }
    }
    for (size_t i = sh.length; i < out.size(); ++i)
        if (out[i].get_seq() != CANARY_SEQ) { detail = "output[" + std::to_string(i) + "] beyond length was written"; return "wrote-beyond-length"; }
    for (unsigned s = 0; s < sh.k; ++s) {
        if (in.seqs[s].second != in.ends[s]) { detail = "end of sequence " + std::to_string(s) + " was changed"; return "end-changed"; }
        if (in.seqs[s].first != in.begins[s] + taken[s]) {
            detail = "begin of sequence " + std::to_string(s) + " advanced by " + std::to_string(in.seqs[s].first - in.begins[s]) +
                     ", but " + std::to_string(taken[s]) + " of its elements are in the output";
            return "wrong-advance";
        }
        // inputs themselves untouched
        for (size_t p = 0; p < sh.keys[s].size(); ++p) {
            const E& e = in.store[s][p];
            if (e.key != sh.keys[s][p] || e.get_seq() != s || e.get_pos() != p) { detail = "input element modified"; return "input-modified"; }
        }
        if (in.has_slot && in.store[s].back().get_seq() != CANARY_SEQ) { detail = "sentinel slot overwritten"; return "sentinel-modified"; }
    }
    return "";
}

} // namespace mergechk
