// A byte range that is NOT followed by a NUL terminator or by slack: an exact-size heap
// block under ASan (any read past the end is a report), otherwise a slice between 0xFF
// guard bytes (a read past the end that influences the result changes the result).
#pragma once

#include <cstring>
#include <memory>
#include <string>

namespace verif {

struct Slice {
    std::unique_ptr<char[]> buf;
    const char* p = nullptr;
    size_t n = 0;
    Slice() = default;
    explicit Slice(const std::string& s) { assign(s.data(), s.size()); }
    Slice(const void* d, size_t len) { assign(d, len); }
    void assign(const void* d, size_t len) {
        n = len;
#if defined(__SANITIZE_ADDRESS__)
        buf.reset(new char[len]);
        if (len) memcpy(buf.get(), d, len);
        p = buf.get();
#else
        buf.reset(new char[len + 2]);
        buf[0] = static_cast<char>(0xFF); buf[len + 1] = static_cast<char>(0xFF);
        if (len) memcpy(buf.get() + 1, d, len);
        p = buf.get() + 1;
#endif
    }
    const char* data() const { return p; }
    size_t size() const { return n; }
};

} // namespace verif
