"""Texts for MANIFEST.json (kept apart from the run configuration in props.py)."""

BASELINE_OFF = "./baseline_off.sh"
HOOK_COMMITS = []
NOTES = ("All checks are runtime monitors: the real tlx code from /repo's working tree is compiled "
         "into per-property harnesses (plain / ASan+UBSan / TSan builds, a -DNDEBUG build and a C++17 "
         "ASan build) and driven with generated, "
         "hostile workloads while reference models, invariant walkers, lifetime ledgers and the "
         "sanitizers watch. ./check <id> --tier quick|thorough; VERIF_SEED selects the PRNG seed. "
         "known_findings.txt lists recorded and repaired defects. See DESIGN.md.")
ENGINES = [
    dict(name="differential", path="harness/", serves_properties=[],
         kind_free_text="lock-step differential monitors against reference models, with sanitizers"),
]
NOT_CLAIMED = {}

TEXT = {}
TEXT["C20"] = dict(
    engine="differential",
    design_ref="DESIGN.md section 4, C20",
    technique="runtime differential monitor vs 128-bit reference definitions, exhaustive for 8/16(/32)-bit, under ASan+UBSan",
    level_text="Every 8- and 16-bit value (and all 8-bit pairs) is enumerated; 32-bit values are "
               "swept on a stride (quick) or completely (thorough); 64-bit values are structured + "
               "random. Each result of the real functions is compared with a loop / __int128 "
               "reference; UBSan turns overflow inside the helpers into a report. Aggregate "
               "combinations are compared with the single feed and a long-double two-pass "
               "computation. Held-on-what-was-enumerated, not a proof for 64-bit.",
    level_note="trusts the harness's reference definitions, gcc's UBSan/ASan, and IEEE double "
               "arithmetic for the Aggregate tolerances (relative 1e-9 of the variance plus a "
               "rounding term scaled by range*magnitude)")
TEXT["C18"] = dict(
    engine="differential",
    design_ref="DESIGN.md section 4, C18",
    technique="runtime differential monitor vs std::string_view, exhaustive over a small byte alphabet incl. NUL/0x80/0xFF, under ASan+UBSan",
    level_text="Every haystack of length <=5 and needle of length <=3 over {00,'a','b',80,FF} is combined "
               "with every position/count argument (in range, just beyond, npos-1, npos) for every "
               "StringView query that std::string_view also offers; value, sign, copied bytes and "
               "exception kind must agree. A terminate handler attributes noexcept violations to the "
               "call in progress. Random longer strings add depth; views sharing storage (same data(), nested, "
               "overlapping) and views without storage (data() == nullptr) are compared as well. Exhaustive for the stated small space, "
               "sampled beyond it.",
    level_note="trusts libstdc++'s std::string_view as the reference where its behaviour is defined; "
               "undefined std cases (remove_prefix beyond size, front() on empty) are not driven")
TEXT["C15"] = dict(
    engine="differential",
    design_ref="DESIGN.md section 4, C15",
    technique="runtime exhaustive zero-one enumeration + obliviousness monitor + random differential, under ASan+UBSan",
    level_text="All 2^n zero-one inputs for n=0..16 are run through each family's size-specific network "
               "and the dispatching entry point, ascending and descending, with identity-carrying "
               "elements (so a duplicated/lost element is seen even when keys are in order). A recording "
               "compare-exchange functor checks that the comparator sequence is data-independent, which "
               "is what lets the zero-one result extend to all inputs. Random inputs of three element "
               "types under several strict weak orders add the non-0/1 evidence. The dispatching entry points are "
               "also driven through reverse, strided and deque iterators (objects outside the range must stay "
               "untouched) and with one named comparator object that is used again after each call.",
    level_note="trusts the zero-one principle and the harness's order/permutation checks; CS_IfSwap is "
               "exercised as the conditional-swap policy (the only one tlx ships)")
TEXT["C14"] = dict(
    engine="offline-oracle",
    design_ref="DESIGN.md section 4, C14",
    technique="runtime chunking-invariance monitor + offline python oracle (hashlib, independent SipHash-2-4) over the recorded log, under ASan+UBSan",
    level_text="Every message length 0..1100 (all padding boundaries of both block sizes) is fed to the "
               "real MD5/SHA-1/SHA-256/SHA-512 classes under every two-call split and many multi-call "
               "chunkings; all must equal the single-call digest, and that digest is recomputed by "
               "python hashlib from a log of (algorithm, message generator, digest) records; hex forms "
               "are checked against the raw bytes. SipHash: plain, SSE2 and dispatcher must agree at "
               "every buffer alignment for lengths 0..129, and the value is recomputed by an independent "
               "SipHash-2-4 anchored on the paper's vectors; keys are handed over at every address offset 0..15. "
               "A single process() call of >= 2^29 bytes is compared with ~1 MiB calls and hashlib. Exhaustive over lengths and split points, "
               "sampled over content, keys and multi-way partitions.",
    level_note="trusts hashlib/OpenSSL, the oracle's SipHash (self-tested on published vectors at every "
               "run) and the shared message generator (splitmix64) being identical in C++ and python -- "
               "a mismatch there would raise alarms, not hide defects")
TEXT["C09"] = dict(
    engine="differential",
    design_ref="DESIGN.md section 4, C09",
    technique="runtime shadow-model monitor of every winner report over random tournament histories, under ASan+UBSan",
    level_text="Random replace-the-winner histories (heavy ties, exhausted players, every k up to 17 and "
               "around 32/64, real keys equal to the padding sentinel) are replayed on all eight loser "
               "tree variants and the two size switches; each min_source() is checked against a linear "
               "scan of a shadow array (liveness, minimality, stable tie-break). Players are registered in ascending, "
               "reverse or shuffled order, and keys reach the tree from arrays or through one reused slot per player. Exploration: held on "
               "the histories generated.",
    level_note="trusts the O(k) shadow scan; unguarded variants are driven only inside their documented "
               "precondition")
TEXT["C05"] = dict(
    engine="differential",
    design_ref="DESIGN.md section 4, C05",
    technique="runtime differential monitor vs stable reference merge with identity-carrying elements, under ASan+UBSan",
    level_text="Randomly generated tuples of sorted sequences (empty ones, heavy ties, dominant sequence, "
               "all lengths classes) are merged by every sequential entry point and algorithm for copy- "
               "and pointer-tree element sizes; because every element carries (sequence, position), the "
               "monitor checks smallest-first order, stability, the per-input prefix property, the "
               "returned end and the advanced input positions, and canaries catch writes beyond length. "
               "ASan catches an unguarded variant running off an input. Exploration: held on the shapes "
               "generated.",
    level_note="trusts std::stable_sort as reference; sentinel variants are driven with the sentinel the "
               "property requires")
TEXT["C08"] = dict(
    engine="differential",
    design_ref="DESIGN.md section 4, C08",
    technique="runtime differential monitor vs brute-force merge at every rank, exhaustive over small tuples, under ASan+UBSan",
    level_text="For each tuple of non-empty sorted sequences every rank 0..N is split by the real "
               "multisequence_partition and selected by multisequence_selection and compared with the "
               "merge by (value, sequence, position): left size, order across the split, exact tie-break, "
               "selected value and offset. All tuples of up to 3 (thorough: 4) short sequences over three "
               "values are enumerated; random tuples cover m up to 64, lengths around powers of two and "
               "very unequal lengths, both orders, a value type whose order is coarser than equality, six rank "
               "types (signed/unsigned, 32/64 bit) and calls passing one variable as rank and as offset.",
    level_note="trusts the brute-force reference; sequences are non-empty as the property requires")
TEXT["C01"] = dict(
    engine="differential",
    design_ref="DESIGN.md section 4, C01",
    technique="runtime lock-step differential monitor vs std ordered containers over random operation histories, per node-capacity configuration",
    level_text="Random operation histories (all public operations incl. const overloads, copies, assignment, "
               "swap, bulk_load) run on the real B+ tree containers and on std::set/multiset/map/multimap; "
               "after every operation returned values, iterator ranks and the complete forward/reverse "
               "iteration are compared. Node capacities from 4 up (leaf and inner chosen independently, "
               "asymmetric and odd), both in-node search strategies, three key orders incl. a stateful one, "
               "three key types. A third of the histories start from a sequentially built, minimally filled tree of several "
               "inner levels and shrink it first; every erase(iterator) is followed by lower_bound/upper_bound/find of the "
               "erased key. Coverage of splits/merges/root growth per configuration is measured. "
               "Exploration: held on the histories generated.",
    level_note="trusts libstdc++'s ordered containers; equal-key order is left free as the property says")
TEXT["C02"] = dict(
    engine="ledger+alloc",
    design_ref="DESIGN.md section 4, C02",
    technique="runtime invariant walker + verify() + arena-checking allocator + element-lifetime ledger after every mutating op, under ASan+UBSan",
    level_text="The same histories as C01 run under ASan with four monitors after every mutating operation: "
               "the tree's own verify(), an independent structural walker through the friend hook (so a "
               "weakened verify() is still caught), a stateful arena-checking allocator (every node returned "
               "exactly once, to the arena it came from) and a ledger of heap-owning elements (no element "
               "outlives its storage or is destroyed twice; nothing alive after destruction).",
    level_note="trusts the walker and ledger code in /verif/lib and harness; TLX_BTREE_DEBUG assertions are "
               "enabled as additional internal monitors")
TEXT["C16"] = dict(
    engine="ledger+alloc",
    design_ref="DESIGN.md section 4, C16",
    technique="runtime lock-step model (std::deque) + element-lifetime ledger + arena allocator after every op, under ASan+UBSan",
    level_text="Random histories over two RingBuffers (capacities 0..9 and 15..17, both cursors wrapping) "
               "with heap-owning ledger-registered elements: after every operation contents, front/back/"
               "index/size/empty equal a std::deque model and the set of live element objects equals the set "
               "of stored elements (an element destroyed while stored, stored but never constructed, or "
               "left alive after removal is reported at the operation that caused it). SimpleVector in its "
               "default mode gets the same ledger check across resize/move/swap/destroy; the NoInit modes "
               "are exercised with a trivially destructible type only, as documented.",
    level_note="trusts std::deque and the ledger; preconditions (capacity respected, pop on non-empty) are "
               "generator invariants; a moved-from buffer is only destroyed, assigned to or re-allocated")
TEXT["C13"] = dict(
    engine="differential",
    design_ref="DESIGN.md section 4, C13",
    technique="runtime lock-step differential monitor vs sorted-multiset / membership-set models after every heap operation, with tlx's internal asserts enabled, under ASan+UBSan",
    level_text="Random operation histories over all three heaps (arities 1..8; comparators over external "
               "priority tables whose entries rise and fall between update() calls; build_heap on empty and "
               "non-empty heaps; radix heaps for every signed/unsigned key width x radix 2..64 with keys at the "
               "type extremes and equal to the current limit). After every operation size, top (a member with "
               "minimal priority), contains() for the whole key universe and beyond, peak_top_key(), the contents "
               "of swap_top_bucket() and sanity_check() are compared with the model; drains must be ordered and "
               "multiset-equal. Exploration: held on the histories generated.",
    level_note="trusts the linear-scan models; any element among equal priorities may surface; radix heap only "
               "driven inside its documented monotonicity precondition")
TEXT["C17"] = dict(
    engine="ledger+alloc",
    design_ref="DESIGN.md section 4, C17",
    technique="runtime lock-step differential monitor vs reference recency list / std::(multi)set after every op, in-order walker, arena-checking node allocator + element-lifetime ledger, under ASan+UBSan",
    level_text="Random histories over small key universes drive both LRU caches (including puts of keys that are "
               "already the most recent one, touches interleaved with erasures, absent keys for every throwing and "
               "non-throwing form, clear-then-reuse) and SplayTree as set and multiset under three orders (including "
               "a coarse order with equivalence classes) with operations on the empty tree, erase by node, "
               "clear-then-reuse and destruction. Every return value, exception kind, popped key/value, size and "
               "the complete in-order walk are compared with the reference after each operation; node blocks and "
               "key objects are counted exactly. Exploration: held on the histories generated.",
    level_note="trusts std::list / std::set / std::multiset as references; the recency order of an LRU cache is only "
               "observable through pop(), so it is compared at every pop and by a final drain")
TEXT["C19"] = dict(
    engine="offline-oracle",
    design_ref="DESIGN.md section 4, C19",
    technique="runtime differential monitor vs reference transcriptions of the documented definitions, exhaustive over short strings of a hostile alphabet, round-trip monitors, offline python oracle (base64, binascii) over the recorded log, under ASan+UBSan",
    level_text="All 4681 strings of length <=4 over {separator, quote, escape, space, 'a', 'B', NUL, 0xE9}, each paired with "
               "all 73 strings of length <=2, go through every overload of the pure helpers and are compared with direct "
               "reference code (split with limits/min_fields, replace, trim family, starts/ends_with, contains, case "
               "conversion, compare/equal/less_icase, erase_all, pad, levenshtein). Random vectors exercise join<->split "
               "(bordered and multi-byte separators, trailing empty parts) and join_quoted<->split_quoted (empty fields, "
               "leading quotes, escapes, control characters, 20 parameter triples). base64 (line breaks 0/4/8/76/random "
               "multiple of 4, strict/non-strict) and both hexdumps are checked for every length 0..200+ and against "
               "python's encoders. Exhaustive for the small space, sampled beyond.",
    level_note="trusts the harness's reference transcriptions and python's base64/binascii; less_icase is only required "
               "to be a consistent order that agrees with compare_icase on 7-bit input")
TEXT["C03"] = dict(
    engine="differential",
    design_ref="DESIGN.md section 4, C03",
    technique="runtime output monitor (identity permutation, memcmp order, exact LCP, canary) over generated string multisets x representation x entry point x memory limit, under ASan+UBSan",
    level_text="Each sort is checked three ways: the multiset of string objects (pointers of C strings and owned strings, "
               "suffix offsets, std::string values) is unchanged, neighbours are ordered by unsigned bytes, and every "
               "lcp[i>=1] equals the recomputed LCP with the slot behind the array untouched. Generators aim at what the "
               "suite never builds: empty and prefix-related strings, bytes >= 0x80, runs of identical strings that end "
               "inside a radix step, sizes around 32/256/65536, and non-zero memory limits spread over all fall-back "
               "thresholds, for all seven detail sorters and the public overloads. Each C string is its own heap block "
               "so ASan sees reads past the terminator. Exploration: held on the cases generated.",
    level_note="trusts the harness's memcmp/LCP reference; the signed-char string sets are driven through the public API "
               "only (that is where the unsigned-order guarantee for char* is made)")
ENGINES.append(dict(name="dsched", path="sched/dsched.hpp", serves_properties=["C04", "C10", "C11", "C12"],
                    kind_free_text="controlled scheduler: shims for std::mutex/condition_variable/thread/atomic inside "
                                   "namespace tlx (force-included, tlx sources unmodified); serial mode explores seeded "
                                   "schedules on real OS threads with deadlock detection, jitter mode perturbs real "
                                   "concurrency for TSan/ASan"))
ENGINES.append(dict(name="ledger+alloc", path="lib/tracked.hpp", serves_properties=["C02", "C06", "C16", "C17"],
                    kind_free_text="element-lifetime ledger and arena-checking allocator"))
ENGINES.append(dict(name="offline-oracle", path="oracle/", serves_properties=["C14", "C19"],
                    kind_free_text="python re-computation (hashlib, base64, binascii, independent SipHash) over recorded logs"))
TEXT["C11"] = dict(
    engine="dsched",
    design_ref="DESIGN.md section 4, C11",
    technique="runtime monitoring under a controlled scheduler (seeded schedules over shimmed mutex/cv/atomic, deadlock and rest-state inspection) + sequential-model replay of the recorded history, and TSan/ASan on jittered real-thread runs",
    level_text="The unmodified Semaphore and barrier code runs on real threads whose every synchronisation operation is a "
               "scheduling decision of a seeded strategy, so thousands of distinct interleavings of 2-5 threads are "
               "explored per second and a state with no runnable thread is detected exactly. Semaphore histories are "
               "linearised by the mutex acquisition in which each operation took effect and replayed on the sequential "
               "model (exact return values, tokens never over-issued, wait only with value >= delta+slack); every rest "
               "state is inspected for a blocked waiter whose request value() covers. Barrier generations are checked "
               "through enter/leave/action tickets and the last arriver from the shim's operation log. The same "
               "workloads run on real threads with injected delays under TSan and ASan. Exploration: held on the "
               "schedules generated; sequentially consistent only.",
    level_note="trusts the shim's fidelity to the std primitives (no spurious wake-ups, any waiter may be picked by "
               "notify_one) and TSan for missing synchronisation; termination is only observed as 'no deadlock state and "
               "no watchdog expiry on the schedules explored'")
TEXT["C10"] = dict(
    engine="dsched",
    design_ref="DESIGN.md section 4, C10",
    technique="runtime monitoring under a controlled scheduler (seeded schedules over the shimmed mutex/cv/atomic/thread of the unmodified thread_pool.cpp, deadlock detection) + offline check of the recorded job/waiter ticket history, and TSan/ASan on jittered real-thread runs",
    level_text="Job graphs (independent jobs, jobs enqueuing jobs, outside enqueuers, several concurrent waiters, "
               "terminate() from inside and outside, destruction with pending jobs, mutually waiting jobs) run on a real "
               "ThreadPool whose every synchronisation operation is a seeded scheduling decision, including the window "
               "between a waiter's predicate check and its wait. From the ticket history: exactly-once execution, "
               "completion of everything enqueued before the wait, existence of a quiescent instant inside every "
               "loop_until_empty() interval, done() and visibility of plain writes, no running job at "
               "loop_until_terminate()/destructor return. A state with no runnable thread is a lost wake-up or "
               "deadlock. Real-thread runs with injected delays under TSan/ASan cover missing synchronisation. "
               "Exploration: held on the schedules generated.",
    level_note="trusts the shim's fidelity and sequential consistency of controlled schedules; termination only as absence "
               "of deadlock states / watchdog expiry on the explored schedules")
TEXT["C12"] = dict(
    engine="dsched",
    design_ref="DESIGN.md section 4, C12",
    technique="runtime model monitor (count == number of handles, live objects == referenced objects, destruction registry) after every handle operation under ASan; concurrent histories under the controlled scheduler (reference-count operations are scheduling points) and under TSan/ASan with jitter",
    level_text="Sequential histories mix every way of creating, copying, moving, converting, swapping, resetting and "
               "unifying handles, including all aliasing shapes (self-assignment, assignment between two handles of one "
               "object, moving from an alias, a second handle made from a raw pointer). After each step the expected "
               "target of every handle, the reference count of every referenced object and the exact set of live "
               "objects are compared with what the real handles report; list histories keep handles inside managed nodes and "
               "walk them through same-type and converting (handle-to-const) assignment; a registry keyed by address plus ASan catch "
               "double and missing destruction. Concurrent histories run under thousands of controlled schedules in "
               "which each atomic counter operation can be interleaved, and on real threads under TSan/ASan. "
               "Exploration: held on the histories and schedules generated.",
    level_note="trusts the registry/ledger and the shim's fidelity; sequentially consistent schedules only, TSan for "
               "missing synchronisation")
TEXT["C07"] = dict(
    engine="differential",
    design_ref="DESIGN.md section 4, C07",
    technique="runtime differential monitor vs stable reference merge with identity-carrying, write-counting elements on real threads, under TSan (races) and ASan+UBSan (memory)",
    level_text="The C05 shapes (empty sequences, heavy ties across every split point, dominant sequences) are merged by all "
               "four parallel entry points for every length class, 1..32 threads (more threads than elements included), "
               "both splitting strategies, three oversampling factors, all merge algorithms and both the forced and the "
               "natural parallel switch. Elements carry (sequence, position) and count assignments per destination "
               "object, so the monitor decides keys, stability, the per-input prefix property, the returned end, the "
               "advanced inputs, writes beyond length and 'each position written exactly once'; a heap-owning ledger element "
               "makes every construction/assignment/destruction of the merge's temporaries visible; TSan decides data races "
               "on the real executions. Exploration: held on the cases and OS schedules observed.",
    level_note="trusts std::stable_sort as the reference and TSan/ASan reports; no controlled scheduler here - the merge "
               "threads do not synchronise with each other, so interleavings only matter through overlapping writes, which "
               "the write counters and TSan observe directly")
TEXT["C06"] = dict(
    engine="ledger+alloc",
    design_ref="DESIGN.md section 4, C06",
    technique="runtime differential monitor vs std::stable_sort with (key, original index) elements + element-lifetime ledger, on real threads under ASan+LSan (memory, leaked temporaries) and TSan (races)",
    level_text="Sizes 0..300 are covered densely (so fewer elements than threads and uneven slices are the norm), with "
               "duplicate-heavy, sorted, reversed and random keys, 1..32 threads, both splitting strategies, three "
               "oversampling factors and both comparators. Stable sorts must equal std::stable_sort element by element; "
               "unstable ones must be sorted permutations. Heap-owning ledger elements make every temporary copy "
               "visible: the number of live elements must be unchanged by the call, the comparator must never be called on "
               "a moved-from (poisoned) element, and ASan/LSan see reads of dead "
               "storage and leaks; TSan watches real executions for races (the barriers' own interleavings are the "
               "subject of C11). Exploration: held on the cases and OS schedules observed.",
    level_note="trusts std::stable_sort as the reference and the sanitizers' reports; termination only as absence of a "
               "watchdog expiry")
TEXT["C04"] = dict(
    engine="dsched",
    design_ref="DESIGN.md section 4, C04",
    technique="runtime monitoring under a controlled scheduler (seeded schedules over every mutex/cv/atomic operation of the unmodified sorter and its thread pool, deadlock detection) with ASan, plus TSan/ASan on jittered real-thread runs; output monitor for identity permutation, order and exact LCP",
    level_text="Small-threshold parameter sets bring the whole job graph of the parallel sample sort (sample, count, "
               "distribute, nested big steps, sequential sample sort, multikey quicksort, insertion sort, work sharing, "
               "sub-step counters that delete their step) down to inputs of 30-5000 strings, so each sort finishes in "
               "milliseconds and thousands of distinct controlled schedules with 1-4 workers are explored per run, plain "
               "and under ASan (any touch of a released step is a report). The same sorts run on real threads with "
               "injected delays under TSan and ASan, and the public entry points with default parameters above 2^20 "
               "strings. Every result is checked for identity permutation, unsigned byte order and exact LCPs. "
               "Exploration: held on the inputs and schedules generated; sequentially consistent only in serial mode.",
    level_note="trusts the shim's fidelity, ASan/TSan reports and the harness's memcmp/LCP reference; termination only as "
               "absence of deadlock states / watchdog expiry")
