"""Texts for MANIFEST.json (kept apart from the run configuration in props.py)."""

BASELINE_OFF = "./baseline_off.sh"
HOOK_COMMITS = []
NOTES = ("All checks are runtime monitors: the real tlx code from /repo's working tree is compiled "
         "into per-property harnesses (plain / ASan+UBSan / TSan builds) and driven with generated, "
         "hostile workloads while reference models, invariant walkers, lifetime ledgers and the "
         "sanitizers watch. ./check <id> --tier quick|thorough; VERIF_SEED selects the PRNG seed. "
         "known_findings.txt lists recorded and repaired defects. See DESIGN.md.")
ENGINES = [
    dict(name="differential", path="harness/", serves_properties=[],
         kind_free_text="lock-step differential monitors against reference models, with sanitizers"),
]
NOT_CLAIMED = {}

TEXT = {}
TEXT["C20"] = dict(
    engine="differential",
    design_ref="DESIGN.md section 4, C20",
    technique="runtime differential monitor vs 128-bit reference definitions, exhaustive for 8/16(/32)-bit, under ASan+UBSan",
    level_text="Every 8- and 16-bit value (and all 8-bit pairs) is enumerated; 32-bit values are "
               "swept on a stride (quick) or completely (thorough); 64-bit values are structured + "
               "random. Each result of the real functions is compared with a loop / __int128 "
               "reference; UBSan turns overflow inside the helpers into a report. Aggregate "
               "combinations are compared with the single feed and a long-double two-pass "
               "computation. Held-on-what-was-enumerated, not a proof for 64-bit.",
    level_note="trusts the harness's reference definitions, gcc's UBSan/ASan, and IEEE double "
               "arithmetic for the Aggregate tolerances (relative 1e-9 of the variance plus a "
               "rounding term scaled by range*magnitude)")
