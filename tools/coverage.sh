#!/bin/bash
# tools/coverage.sh <prop> [tier]: which lines of the files a property is anchored in does the
# property's check execute? Builds the check's binaries with --coverage into a scratch build
# directory, runs the check, and writes /var/tmp/verif-cov/<prop>/<file>.gcov-merged plus a summary of
# executed / instrumented-but-never-executed / never-instantiated lines. A development aid (not part of
# any registered command): it shows which functions of the anchored files no workload reaches.
prop=$1; tier=${2:-quick}
cd "$(dirname "$0")/.." || exit 2
out=/var/tmp/verif-cov/$prop; rm -rf $out; mkdir -p $out/build $out/ev
VERIF_EXTRA_FLAGS="--coverage" VERIF_BUILD_DIR=$out/build VERIF_EVIDENCE_DIR=$out/ev VERIF_REPLAY_DIR=$out/ev \
  ./check $prop --tier $tier > $out/check.log 2>&1
echo "check exit $? ($(grep -E '^\[C[0-9]+\] tier' $out/check.log | cut -c1-100))"
python3 tools/coverage_merge.py $prop $out
