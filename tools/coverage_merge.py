#!/usr/bin/env python3
"""merge gcov output of all coverage builds of one property for the files it is anchored in"""
import glob, gzip, json, os, subprocess, sys
prop, out = sys.argv[1], sys.argv[2]
anch = []
for line in open(os.path.join(os.path.dirname(__file__), "..", "properties.jsonl")):
    d = json.loads(line)
    if d["id"] == prop:
        anch = d.get("anchor", d.get("anchors", {})).get("files", []) if isinstance(d.get("anchor", d.get("anchors", {})), dict) else []
        if not anch:
            for k, v in d.items():
                if isinstance(v, dict) and "files" in v:
                    anch = v["files"]
repo = os.environ.get("VERIF_REPO", "/repo")
lines = {}   # file -> {lineno: max count or -1 for instrumented, never run}
for gcda in glob.glob(os.path.join(out, "build", "*", "*.gcda")):
    d = os.path.dirname(gcda)
    r = subprocess.run(["gcov", "--json-format", "--stdout", gcda], cwd=d, stdout=subprocess.PIPE, stderr=subprocess.DEVNULL)
    for doc in r.stdout.decode(errors="replace").splitlines():
        try:
            j = json.loads(doc)
        except Exception:
            continue
        for f in j.get("files", []):
            fn = os.path.normpath(os.path.join(d, f["file"])) if not f["file"].startswith("/") else os.path.normpath(f["file"])
            if not fn.startswith(repo + "/"):
                continue
            rel = fn[len(repo) + 1:]
            m = lines.setdefault(rel, {})
            for ln in f["lines"]:
                m[ln["line_number"]] = max(m.get(ln["line_number"], 0), ln["count"])
tot = {}
for rel in sorted(lines):
    if anch and rel not in anch:
        continue
    src = open(os.path.join(repo, rel), errors="replace").read().splitlines()
    m = lines[rel]
    ex = sum(1 for c in m.values() if c > 0)
    ne = sum(1 for c in m.values() if c == 0)
    o = os.path.join(out, rel.replace("/", "_") + ".gcov-merged")
    with open(o, "w") as fh:
        for i, t in enumerate(src, 1):
            c = m.get(i)
            fh.write("%9s:%5d:%s\n" % ("-" if c is None else ("#####" if c == 0 else str(c)), i, t))
    print("%-55s executed %5d  instrumented-never-run %4d  (of %d lines)  -> %s" % (rel, ex, ne, len(src), o))
