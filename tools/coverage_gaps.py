#!/usr/bin/env python3
"""list statement-looking lines of a merged gcov file that no build instrumented or executed"""
import re, sys
for p in sys.argv[1:]:
    run = []
    def flush():
        if run:
            print("%s: lines %d-%d never reached:" % (p.split('/')[-1], run[0][0], run[-1][0]))
            for n, t in run[:6]:
                print("     %5d %s" % (n, t))
        run.clear()
    for l in open(p):
        c, n, t = l.rstrip("\n").split(":", 2)
        c = c.strip(); n = int(n)
        ts = t.strip()
        stmt = ts.endswith(";") and not ts.startswith(("//", "typedef", "using", "static const", "friend", "template", "#", "*")) \
            and ("(" in ts or "=" in ts or ts.startswith("return"))
        if c in ("-", "#####") and stmt and (c == "#####" or t.startswith("        ")):
            run.append((n, ts))
        elif c not in ("-", "#####"):
            flush()
    flush()
