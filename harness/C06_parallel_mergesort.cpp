// C06: (stable_)parallel_mergesort on real threads (plain / ASan+LSan / TSan builds).
// Every element carries (key, original index): the stable variant must produce exactly
// std::stable_sort's arrangement, the unstable one a sorted permutation. Heap-owning
// Tracked elements are registered in the lifetime ledger: after the call exactly the n
// input elements are alive (every temporary copy the sort made has been destroyed), no
// element was copied from / assigned to dead storage, and LSan finds nothing at exit.
#include <verif.hpp>
#include <tracked.hpp>

#include <atomic>

#include <tlx/sort/parallel_mergesort.hpp>

using verif::Rng;
using verif::Tracked;

struct KV { int key; int idx; };
VERIF_MISLEADING_ORDER(KV, key)
VERIF_MISLEADING_EQUALITY(KV, key)
struct KVLess { bool operator()(const KV& a, const KV& b) const { return a.key < b.key; } };
struct KVGreater { bool operator()(const KV& a, const KV& b) const { return a.key > b.key; } };
// The comparator is only ever to be called on elements of the input (or copies of them): a moved-from
// Tracked carries a poison key, and seeing one here is recorded (relaxed: no ordering added).
static std::atomic<unsigned> g_cmp_on_moved_from{ 0 };
static inline void cmp_sees(const Tracked& a, const Tracked& b) {
    if (a.key == Tracked::MOVED_FROM || b.key == Tracked::MOVED_FROM) g_cmp_on_moved_from.fetch_add(1, std::memory_order_relaxed);
}
struct TLess { bool operator()(const Tracked& a, const Tracked& b) const { cmp_sees(a, b); return a.key < b.key; } };
struct TGreater { bool operator()(const Tracked& a, const Tracked& b) const { cmp_sees(a, b); return a.key > b.key; } };

template <typename E> struct Tr;
template <> struct Tr<KV> {
    static KV make(int k, int i) { return KV{ k, i }; }
    static int key(const KV& e) { return e.key; }
    static int idx(const KV& e) { return e.idx; }
    static bool ok(const KV&) { return true; }
    static const char* name() { return "KV"; }
    typedef KVLess Less; typedef KVGreater Greater;
    static const bool tracked = false;
};
template <> struct Tr<Tracked> {
    static Tracked make(int k, int i) { return Tracked(k, i); }
    static int key(const Tracked& e) { return e.key; }
    static int idx(const Tracked& e) { return e.payload; }
    static bool ok(const Tracked& e) { return e.heap && *e.heap == e.key; }
    static const char* name() { return "Tracked"; }
    typedef TLess Less; typedef TGreater Greater;
    static const bool tracked = true;
};

static const char* shape_name(int s) {
    static const char* n[] = { "all-equal", "2-4-keys", "sorted", "reversed", "sawtooth", "random", "one-heavy-key" };
    return n[s];
}

static std::vector<int> gen_keys(Rng& rng, size_t n, int shape) {
    std::vector<int> k(n);
    switch (shape) {
    case 0: { int v = (int)rng.below(100); for (auto& x : k) x = v; break; }
    case 1: { int u = 2 + (int)rng.below(3); for (auto& x : k) x = (int)rng.below(u); break; }
    case 2: for (size_t i = 0; i < n; ++i) k[i] = (int)(i / (1 + rng.below(3))); break;
    case 3: for (size_t i = 0; i < n; ++i) k[i] = (int)((n - i) / (1 + rng.below(3))); break;
    case 4: { size_t p = 2 + rng.below(17); for (size_t i = 0; i < n; ++i) k[i] = (int)(i % p); break; }
    case 5: for (auto& x : k) x = (int)rng.below(1000000); break;
    default: for (auto& x : k) x = rng.chance(9, 10) ? 7 : (int)rng.below(20); break;
    }
    return k;
}

template <typename E>
static void one_sort(Rng& rng, size_t n, int shape, bool big) {
    typedef Tr<E> T;
    std::vector<int> keys = gen_keys(rng, n, shape);
    bool stable = rng.coin(), desc = rng.coin(), sampling = rng.coin();
    size_t threads = rng.pick(std::vector<size_t>{ 1, 2, 3, 4, 4, 5, 6, 7, 8, 8, 11, 16, 17, 32 });
    if (big) threads = rng.pick(std::vector<size_t>{ 2, 4, 8, 16 });
    tlx::parallel_multiway_merge_oversampling = rng.pick(std::vector<size_t>{ 1, 2, 10 });
    std::string what = std::string(stable ? "stable_parallel_mergesort" : "parallel_mergesort") + "<" + T::name() + "> n=" + std::to_string(n) + " threads=" + std::to_string(threads) + (sampling ? " SAMPLING" : " EXACT") + " oversampling=" + std::to_string(tlx::parallel_multiway_merge_oversampling) + (desc ? " descending" : " ascending") + " keys=" + shape_name(shape);
    verif::context() = stable ? "stable_parallel_mergesort" : "parallel_mergesort";
    std::string key = std::string("C06:") + (stable ? "stable_parallel_mergesort" : "parallel_mergesort") + ":" + (sampling ? "SAMPLING" : "EXACT") + ":";
    {
        // the array is exactly n elements long, so ASan sees any access behind it
        std::unique_ptr<std::vector<E> > v(new std::vector<E>());
        v->reserve(n);
        for (size_t i = 0; i < n; ++i) v->push_back(T::make(keys[i], (int)i));
        std::vector<std::pair<int, int> > ref(n);
        for (size_t i = 0; i < n; ++i) ref[i] = { keys[i], (int)i };
        if (desc) std::stable_sort(ref.begin(), ref.end(), [](const std::pair<int, int>& a, const std::pair<int, int>& b) { return a.first > b.first; });
        else std::stable_sort(ref.begin(), ref.end(), [](const std::pair<int, int>& a, const std::pair<int, int>& b) { return a.first < b.first; });
        size_t live0 = T::tracked ? verif::Ledger::get().live_count() : 0;
        tlx::MultiwayMergeSplittingAlgorithm mwmsa = sampling ? tlx::MWMSA_SAMPLING : tlx::MWMSA_EXACT;
        E* b = v->data();
#ifdef VERIF_DSCHED
        static std::string scen;
        scen = what;
        dsched::S().context = stable ? "stable_parallel_mergesort" : "parallel_mergesort";
        dsched::S().on_deadlock = []() { fprintf(stderr, "scenario: %s\n", scen.c_str()); };
        dsched::S().spurious_den = rng.chance(1, 3) ? 8 : 0;   // a third of the sorts with spurious wake-ups at the barriers
        dsched::S().begin(rng.next(), (int)rng.below(dsched::STRATEGIES));
#endif
        if (stable) { if (desc) tlx::stable_parallel_mergesort(b, b + n, typename T::Greater(), threads, mwmsa); else tlx::stable_parallel_mergesort(b, b + n, typename T::Less(), threads, mwmsa); }
        else { if (desc) tlx::parallel_mergesort(b, b + n, typename T::Greater(), threads, mwmsa); else tlx::parallel_mergesort(b, b + n, typename T::Less(), threads, mwmsa); }
#ifdef VERIF_DSCHED
        {
            dsched::Stats st = dsched::S().end();
            verif::count("spurious_wakeups_injected", dsched::S().spurious_wakeups);
            if (dsched::S().serial()) { verif::distinct(st.hash); verif::count("schedule_steps", st.steps); verif::count("controlled_schedules"); }
        }
#endif
        if (unsigned c = g_cmp_on_moved_from.exchange(0))
            verif::fail(key + "comparator-called-on-moved-from-element", what + ": the comparator was called " + std::to_string(c) + " time(s) with a moved-from element (a value that is not an element of the input)");
        if (T::tracked) {
            size_t live1 = verif::Ledger::get().live_count();
            if (live1 != live0) verif::fail("C06:lifetime:temporaries-alive-after-return", what + ": " + std::to_string(live1 - live0 > live1 ? 0 : live1 - live0) + " temporary element copies are still alive after the sort returned (" + std::to_string(live0) + " -> " + std::to_string(live1) + ")");
        }
        // order + permutation
        std::vector<std::pair<int, int> > got(n);
        bool okv = true;
        for (size_t i = 0; i < n; ++i) { got[i] = { T::key((*v)[i]), T::idx((*v)[i]) }; okv = okv && T::ok((*v)[i]); }
        if (!okv) verif::fail(key + "corrupt-element", what);
        else if (stable) {
            for (size_t i = 0; i < n; ++i)
                if (got[i] != ref[i]) { verif::fail(key + (got[i].first != ref[i].first ? "wrong-order" : "unstable"), what + ": position " + std::to_string(i) + " holds (key " + std::to_string(got[i].first) + ", index " + std::to_string(got[i].second) + "), std::stable_sort gives (key " + std::to_string(ref[i].first) + ", index " + std::to_string(ref[i].second) + ")"); break; }
        }
        else {
            bool sorted = true;
            for (size_t i = 0; i < n && sorted; ++i) if (got[i].first != ref[i].first) { sorted = false; verif::fail(key + "wrong-order", what + ": position " + std::to_string(i) + " holds key " + std::to_string(got[i].first) + ", sorted order has " + std::to_string(ref[i].first)); }
            if (sorted) {
                std::vector<std::pair<int, int> > a = got, c = ref;
                std::sort(a.begin(), a.end()); std::sort(c.begin(), c.end());
                if (a != c) verif::fail(key + "not-a-permutation", what + ": the multiset of (key, original index) changed");
            }
        }
        v.reset();
        if (T::tracked && verif::Ledger::get().live_count() != 0 && !verif::case_failed())
            verif::fail("C06:lifetime:temporaries-alive-after-return", what + ": " + std::to_string(verif::Ledger::get().live_count()) + " element objects alive after the array was destroyed");
        if (T::tracked) { verif::Ledger::get().live.clear(); verif::Ledger::get().errors = 0; }
    }
    verif::count("sorts");
    if (n < threads && n > 1) verif::count("sorts_with_n_below_threads");
    if (n % (threads ? threads : 1)) verif::count("sorts_with_n_not_divisible");
    if (T::tracked) verif::count("sorts_with_heap_owning_elements");
    std::string nc = n < 2 ? "n<2" : n < threads ? "n<threads" : n < 64 ? "n<64" : n < 1000 ? "n<1000" : "n>=1000";
    std::string tc = threads == 1 ? "1" : threads <= 4 ? "2-4" : threads <= 16 ? "5-16" : "17+";
    verif::cover(std::string(stable ? "stable:" : "unstable:") + T::name() + ":" + (sampling ? "SAMPLING" : "EXACT") + ":threads=" + tc + ":" + nc + ":" + shape_name(shape));
    if (verif::want_sample(3)) verif::sample(what);
}

static void run_case(Rng& rng, uint64_t) {
    bool big = verif::param_int("big", 0) != 0;
    int tracked_every = (int)verif::param_int("tracked_every", 2);
    int rounds = big ? 3 : 40;
    for (int r = 0; r < rounds; ++r) {
        size_t n = big ? rng.pick(std::vector<size_t>{ 20000, 100000, 300000 })
                       : rng.chance(1, 6) ? rng.pick(std::vector<size_t>{ 1000, 2500, 5000 }) : rng.below(301);
        int shape = (int)rng.below(7);
        if (tracked_every && r % tracked_every == 0 && !big) one_sort<Tracked>(rng, n, shape, big);
        else one_sort<KV>(rng, n, shape, big);
        if (verif::case_failed()) break;
    }
}

static void init() {
    verif::property_id() = "C06";
    verif::Ledger::get().prop = "C06";
#ifdef VERIF_DSCHED
    // unit built with the scheduler shims: the sort's threads and its mutex barrier run under
    // controlled schedules, so a thread that never reaches a barrier is detected as a deadlock
    dsched::S().mode = verif::param("mode", "serial") == "serial" ? dsched::SERIAL : dsched::JITTER;
    dsched::S().prop = "C06";
#endif
}
VERIF_MAIN_INIT(run_case, init)
