// C10: ThreadPool under controlled schedules (mode=serial, dsched shims; deadlock =
// no runnable thread) and under real threads with timing jitter (mode=jitter, TSan/ASan).
//
// (The harness's own atomics - ids, run counters, the ticket clock - are relaxed, so that they add no
// happens-before edges of their own and TSan judges the pool's synchronisation alone.)
// Every job has a unique id and records (enqueue call, enqueue return, start, end)
// tickets and an execution counter; waiters record (call, return) tickets.
//   * no job runs twice; after a loop_until_empty() on a non-terminated pool every job
//     whose enqueue returned before the call was made has run exactly once;
//   * loop_until_empty() returns only at a moment with no job queued or running: the
//     intervals [enqueue returned, job body ended] of all jobs must not cover the whole
//     (call, return) interval of the waiter;
//   * without concurrent enqueuers, done() == jobs run and the jobs' plain writes are
//     read by the waiter right after the return (TSan decides visibility);
//   * loop_until_terminate() / destructor: no job is running when they return;
//   * several concurrent waiters, terminate() from a job or from outside, rendezvous
//     jobs that need two workers at once: all must come back (deadlock detection).
#include <verif.hpp>

#include <iostream>
#include <memory>
#include <stdexcept>

#include <tlx/thread_pool.hpp>

using verif::Rng;

static bool g_serial = true;
static std::string g_scenario;
static void print_scenario() { fprintf(stderr, "scenario: %s\n", g_scenario.c_str()); }
static void pause_point(bool demote = false) {
    if (g_serial) dsched::S().yield_point(demote); else { dsched::S().jitter(); if (demote) sched_yield(); }
}

struct JobRec {
    std::atomic<int> runs{ 0 };
    uint64_t enq_call = 0, enq_ret = 0, start = 0, end = 0;
    uint64_t destroyed = 0;   // ticket at which the job's closure (and what it captured by value) was destroyed
    int plain = 0;
    int depth = 0;
};
//! captured by value in every job closure: its destructor is part of the job
struct ClosureGuard {
    JobRec* rec;
    explicit ClosureGuard(JobRec* r) : rec(r) {}
    ClosureGuard(const ClosureGuard&) = delete;
    ~ClosureGuard();
};

struct Waiter { uint64_t call = 0, ret = 0; size_t done_at_ret = 0; size_t ids_at_call = 0; bool with_externals = false; bool terminate = false; };

struct World {
    std::vector<JobRec> jobs;
    std::atomic<size_t> next{ 0 };
    std::atomic<int> arrived{ 0 };
    std::atomic<bool> rendezvous_failed{ false };
    tlx::ThreadPool* pool = nullptr;
    Rng* rng = nullptr;
    bool with_init = false;                // the pool was given a per-worker initialisation callback
    std::atomic<int> inits[64];            // calls of that callback per worker index
    bool throwing_jobs = false;            // every fifth job ends by throwing a std::runtime_error
    std::atomic<unsigned> thrown{ 0 };
    explicit World(size_t cap) : jobs(cap) { for (auto& x : inits) x.store(0); }
};

ClosureGuard::~ClosureGuard() { pause_point(); rec->destroyed = dsched::tick(); }

//! enqueue a job that may enqueue children
static void spawn(World& w, int depth, unsigned fanout, unsigned pauses) {
    size_t id = w.next.fetch_add(1, std::memory_order_relaxed);
    if (id >= w.jobs.size()) return;
    JobRec& j = w.jobs[id];
    j.depth = depth;
    j.enq_call = dsched::tick();
    std::shared_ptr<ClosureGuard> guard = std::make_shared<ClosureGuard>(&j);
    w.pool->enqueue([&w, id, depth, fanout, pauses, guard]() {
        JobRec& me = w.jobs[id];
        me.start = dsched::tick();
        me.runs.fetch_add(1, std::memory_order_relaxed);
        for (unsigned p = 0; p < pauses; ++p) pause_point();
        me.plain = (int)id + 1;
        if (depth > 0)
            for (unsigned c = 0; c < fanout; ++c) spawn(w, depth - 1, fanout, pauses ? pauses - 1 : 0);
        me.end = dsched::tick();
        // the pool catches std::exception from a job and goes on: such a job has run like any other
        if (w.throwing_jobs && id % 5 == 2) { w.thrown.fetch_add(1, std::memory_order_relaxed); throw std::runtime_error("job failed on purpose"); }
    });
    guard.reset();
    j.enq_ret = dsched::tick();
}

static bool check_jobs_once(const World& w, size_t upto, bool must_have_run, const std::string& when) {
    for (size_t i = 0; i < upto; ++i) {
        int r = w.jobs[i].runs.load(std::memory_order_relaxed);
        if (r > 1) { verif::fail("C10:job-executed-twice", "job " + std::to_string(i) + " ran " + std::to_string(r) + " times (" + when + ") | " + g_scenario); return false; }
        if (must_have_run && r != 1) { verif::fail("C10:job-not-executed", "job " + std::to_string(i) + " ran " + std::to_string(r) + " times when " + when + " | " + g_scenario); return false; }
    }
    return true;
}

//! the waiter's (call, ret) must contain an instant at which no job is definitely pending
static bool check_quiescent_instant(const World& w, size_t njobs, const Waiter& wt, const std::string& what) {
    // candidate instants: just after `call` and just after each job's end within (call, ret)
    std::vector<uint64_t> cand{ wt.call };
    auto finished = [](const JobRec& j) { return j.end == 0 || j.destroyed == 0 ? (uint64_t)0 : std::max(j.end, j.destroyed); };
    for (size_t i = 0; i < njobs; ++i) { uint64_t f = finished(w.jobs[i]); if (f > wt.call && f < wt.ret) cand.push_back(f); }
    for (uint64_t b : cand) {
        bool covered = false;   // is the gap (b, b+1) inside some [enq_ret, end] ?
        for (size_t i = 0; i < njobs && !covered; ++i) {
            const JobRec& j = w.jobs[i];
            if (j.enq_ret == 0 || j.enq_ret > b) continue;
            uint64_t f = finished(j);
            if (f == 0 || f >= b + 1) covered = true;   // never finished (body or closure teardown), or finished later
        }
        if (!covered) return true;
    }
    verif::fail("C10:" + what + ":returned-while-jobs-pending", what + " (call ticket " + std::to_string(wt.call) + ", return " + std::to_string(wt.ret) + ") returned although at every moment in between some job was queued or running | " + g_scenario);
    return false;
}

/******************************************************************************/

static void scenario_graph(Rng& rng) {
    unsigned p = 1 + (unsigned)rng.below(g_serial ? 4 : 8);
    unsigned rounds = 1 + (unsigned)rng.below(3);
    unsigned externals = rng.chance(1, 3) ? 1 + (unsigned)rng.below(2) : 0;
    unsigned waiters_extra = rng.chance(1, 4) ? 1 : 0;   // a second concurrent loop_until_empty
    int end_mode = (int)rng.below(3);                    // 0 destructor after drain, 1 destructor with pending jobs, 2 terminate() then destructor
    g_scenario = "graph: pool(" + std::to_string(p) + "), " + std::to_string(rounds) + " round(s), " + std::to_string(externals) + " external enqueuer(s), " + std::to_string(waiters_extra) + " extra waiter(s), end mode " + std::to_string(end_mode);
    World w(400);
    w.rng = &rng;
    w.throwing_jobs = rng.chance(1, 4);
    if (w.throwing_jobs) g_scenario += ", every fifth job throws";
    std::vector<Waiter> waits;
    std::vector<Waiter> extra_waits(rounds);
    dsched::Sched& S = dsched::S();
    S.context = "graph";
    S.spurious_den = rng.chance(1, 3) ? 8 : 0;   // a third of the scenarios with spurious wake-ups
    S.begin(rng.next(), (int)rng.below(dsched::STRATEGIES));
    uint64_t dtor_call = 0, dtor_ret = 0;
    size_t ids_before_end = 0;
    {
        // a third of the pools with a per-worker initialisation callback: once per worker index, before its first job
        const bool with_init = rng.chance(1, 3);
        std::unique_ptr<tlx::ThreadPool> pool(with_init
            ? new tlx::ThreadPool(p, [&w](size_t i) { pause_point(); if (i < 64) w.inits[i].fetch_add(1, std::memory_order_relaxed); })
            : new tlx::ThreadPool(p));
        w.pool = pool.get();
        w.with_init = with_init;
        if (pool->size() != p) verif::fail("C10:size", "size() = " + std::to_string(pool->size()) + " for a pool of " + std::to_string(p) + " | " + g_scenario);
        for (unsigned r = 0; r < rounds; ++r) {
            unsigned roots = (unsigned)rng.below(4);
            int depth = (int)rng.below(3);
            unsigned fanout = 1 + (unsigned)rng.below(3);
            unsigned pauses = (unsigned)rng.below(3);
            std::vector<dsched::thread> ext;
            for (unsigned e = 0; e < externals; ++e) {
                unsigned k = 1 + (unsigned)rng.below(3);
                ext.emplace_back([&w, k, depth, fanout]() { for (unsigned i = 0; i < k; ++i) { pause_point(); spawn(w, depth > 0 ? depth - 1 : 0, fanout, 1); } });
            }
            std::unique_ptr<dsched::thread> second;
            if (waiters_extra) second.reset(new dsched::thread([&w, &extra_waits, r]() {
                pause_point();
                extra_waits[r].call = dsched::tick();
                w.pool->loop_until_empty();
                extra_waits[r].ret = dsched::tick();
            }));
            for (unsigned i = 0; i < roots; ++i) spawn(w, depth, fanout, pauses);
            Waiter wt;
            wt.with_externals = externals != 0;
            wt.ids_at_call = w.next.load(std::memory_order_relaxed);
            wt.call = dsched::tick();
            pool->loop_until_empty();
            wt.ret = dsched::tick();
            wt.done_at_ret = pool->done();
            if (!externals) {
                // nothing can be enqueued any more: every job is done and its plain write visible
                size_t n = std::min(w.next.load(std::memory_order_relaxed), w.jobs.size());
                for (size_t i = 0; i < n; ++i)
                    if (w.jobs[i].plain != (int)i + 1) { verif::fail("C10:effects-not-visible", "job " + std::to_string(i) + "'s write is not visible after loop_until_empty() | " + g_scenario); break; }
                if (wt.done_at_ret != n) verif::fail("C10:done-count", "done() = " + std::to_string(wt.done_at_ret) + " after loop_until_empty(), " + std::to_string(n) + " jobs were enqueued and run | " + g_scenario);
            }
            waits.push_back(wt);
            for (auto& t : ext) t.join();
            if (second) second->join();
            if (verif::case_failed()) break;
        }
        if (!verif::case_failed()) {
            if (end_mode == 0) {
                Waiter wt; wt.ids_at_call = w.next.load(std::memory_order_relaxed); wt.call = dsched::tick();
                pool->loop_until_empty();
                wt.ret = dsched::tick(); wt.done_at_ret = pool->done();
                size_t n = std::min(w.next.load(std::memory_order_relaxed), w.jobs.size());
                if (wt.done_at_ret != n) verif::fail("C10:done-count", "done() = " + std::to_string(wt.done_at_ret) + " after the final loop_until_empty(), " + std::to_string(n) + " jobs | " + g_scenario);
                check_jobs_once(w, n, true, "the final loop_until_empty() returned");
                waits.push_back(wt);
            }
            else {
                unsigned k = 1 + (unsigned)rng.below(5);
                for (unsigned i = 0; i < k; ++i) spawn(w, 1, 2, 2);
                if (end_mode == 2) pool->terminate();
            }
        }
        ids_before_end = std::min(w.next.load(std::memory_order_relaxed), w.jobs.size());
        dtor_call = dsched::tick();
        pool.reset();
        dtor_ret = dsched::tick();
    }
    dsched::Stats st = S.end();
    verif::count("pool_scenarios");
    verif::count("jobs_that_threw", w.thrown.load());
    if (w.with_init) {
        for (unsigned i = 0; i < 64; ++i) {
            int c = w.inits[i].load();
            if (c != (i < p ? 1 : 0)) { verif::fail("C10:init-thread", "the initialisation callback ran " + std::to_string(c) + " time(s) for worker index " + std::to_string(i) + " of a pool of " + std::to_string(p) + " | " + g_scenario); break; }
        }
        verif::count("pools_with_init_callback");
    }
    if (g_serial) { verif::distinct(st.hash); verif::count("schedule_steps", st.steps); verif::count("waits_that_blocked", st.cv_blocks); verif::count("notifies_without_waiter", st.notifies_without_waiter); }
    if (verif::case_failed()) return;
    size_t n = std::min(w.next.load(std::memory_order_relaxed), w.jobs.size());
    verif::count("jobs_enqueued", n);
    if (!check_jobs_once(w, n, false, "at the end")) return;
    size_t ran = 0;
    for (size_t i = 0; i < n; ++i) {
        const JobRec& j = w.jobs[i];
        if (j.runs.load(std::memory_order_relaxed)) {
            ++ran;
            if (j.end == 0 || j.end > dtor_ret) { verif::fail("C10:destructor:returned-while-job-running", "job " + std::to_string(i) + " was still running when ~ThreadPool returned | " + g_scenario); return; }
        }
    }
    for (size_t i = 0; i < n; ++i)
        if (w.jobs[i].enq_ret && (w.jobs[i].destroyed == 0 || w.jobs[i].destroyed > dtor_ret)) { verif::fail("C10:destructor:job-closure-not-destroyed", "the closure of job " + std::to_string(i) + " outlived ~ThreadPool | " + g_scenario); return; }
    verif::count("jobs_executed", ran);
    if (n > ran) verif::count("jobs_dropped_by_terminate_or_destructor", n - ran);
    for (const Waiter& wt : waits) {
        // jobs whose enqueue had returned before the call: all done at the return
        for (size_t i = 0; i < n; ++i) {
            const JobRec& j = w.jobs[i];
            if (j.enq_ret != 0 && j.enq_ret < wt.call && j.end != 0 && j.end < wt.ret && (j.destroyed == 0 || j.destroyed > wt.ret)) { verif::fail("C10:loop_until_empty:job-closure-not-destroyed", "job " + std::to_string(i) + " had run, but its closure (objects captured by value) was still being destroyed when loop_until_empty() returned | " + g_scenario); return; }
            if (j.enq_ret != 0 && j.enq_ret < wt.call && (j.end == 0 || j.end > wt.ret)) { verif::fail("C10:loop_until_empty:job-not-finished", "job " + std::to_string(i) + " was enqueued before loop_until_empty() was called but had not finished when it returned | " + g_scenario); return; }
        }
        if (!check_quiescent_instant(w, n, wt, "loop_until_empty")) return;
    }
    for (const Waiter& wt : extra_waits)
        if (wt.call && !check_quiescent_instant(w, n, wt, "loop_until_empty")) return;
    verif::cover("graph:p=" + std::to_string(p > 4 ? 5 : p) + ":externals=" + std::to_string(externals) + ":extra-waiter=" + std::to_string(waiters_extra) + ":end=" + std::to_string(end_mode));
}

static void scenario_terminate(Rng& rng) {
    unsigned p = 1 + (unsigned)rng.below(g_serial ? 3 : 6);
    int who = (int)rng.below(3);     // 0 a job terminates, 1 an outside thread, 2 outside thread while all workers idle
    unsigned njobs = who == 2 ? (unsigned)rng.below(2) : 1 + (unsigned)rng.below(5);
    bool second_waiter = rng.chance(1, 3);
    g_scenario = "terminate: pool(" + std::to_string(p) + "), " + std::to_string(njobs) + " job(s), terminate() by " + (who == 0 ? "a job" : who == 1 ? "an outside thread" : "an outside thread after the jobs") + (second_waiter ? ", two waiters" : "");
    World w(64);
    dsched::Sched& S = dsched::S();
    S.context = "terminate";
    S.spurious_den = rng.chance(1, 3) ? 8 : 0;   // a third of the scenarios with spurious wake-ups
    S.begin(rng.next(), (int)rng.below(dsched::STRATEGIES));
    uint64_t ret1 = 0, ret2 = 0, dtor_ret = 0;
    {
        std::unique_ptr<tlx::ThreadPool> pool(new tlx::ThreadPool(p));
        w.pool = pool.get();
        unsigned killer = (unsigned)rng.below(njobs ? njobs : 1);
        for (unsigned i = 0; i < njobs; ++i) {
            size_t id = w.next.fetch_add(1, std::memory_order_relaxed);
            bool kill = who == 0 && i == killer;
            unsigned pauses = (unsigned)rng.below(3);
            w.jobs[id].enq_call = dsched::tick();
            pool->enqueue([&w, id, kill, pauses]() {
                JobRec& me = w.jobs[id];
                me.start = dsched::tick();
                me.runs.fetch_add(1, std::memory_order_relaxed);
                for (unsigned q = 0; q < pauses; ++q) pause_point();
                if (kill) w.pool->terminate();
                for (unsigned q = 0; q < pauses; ++q) pause_point();
                me.end = dsched::tick();
            });
            w.jobs[id].enq_ret = dsched::tick();
        }
        if (who == 2) pool->loop_until_empty();
        std::unique_ptr<dsched::thread> outside, waiter2;
        if (who != 0) outside.reset(new dsched::thread([&w]() { pause_point(); pause_point(); w.pool->terminate(); }));
        if (second_waiter) waiter2.reset(new dsched::thread([&w, &ret2]() { w.pool->loop_until_terminate(); ret2 = dsched::tick(); }));
        pool->loop_until_terminate();
        ret1 = dsched::tick();
        if (outside) outside->join();
        if (waiter2) waiter2->join();
        pool.reset();
        dtor_ret = dsched::tick();
    }
    dsched::Stats st = S.end();
    verif::count("pool_scenarios");
    verif::count("terminate_scenarios");
    if (g_serial) { verif::distinct(st.hash); verif::count("schedule_steps", st.steps); verif::count("waits_that_blocked", st.cv_blocks); }
    size_t n = w.next.load(std::memory_order_relaxed);
    if (!check_jobs_once(w, n, false, "at the end")) return;
    for (size_t i = 0; i < n; ++i) {
        const JobRec& j = w.jobs[i];
        if (!j.runs.load(std::memory_order_relaxed)) continue;
        for (uint64_t r : { ret1, ret2 })
            if (r && j.start < r && (j.end == 0 || j.end > r)) { verif::fail("C10:loop_until_terminate:returned-while-job-running", "job " + std::to_string(i) + " was running when loop_until_terminate() returned | " + g_scenario); return; }
        if (j.end == 0 || j.end > dtor_ret) { verif::fail("C10:destructor:returned-while-job-running", "job " + std::to_string(i) + " | " + g_scenario); return; }
    }
    verif::cover("terminate:p=" + std::to_string(p > 3 ? 4 : p) + ":who=" + std::to_string(who) + (second_waiter ? ":two-waiters" : ""));
}

//! k <= p jobs that each need all k to be running at the same time (serial mode only)
static void scenario_rendezvous(Rng& rng) {
    unsigned p = 2 + (unsigned)rng.below(3);
    unsigned k = 2 + (unsigned)rng.below(p - 1);
    bool from_job = rng.coin();
    g_scenario = "rendezvous: pool(" + std::to_string(p) + "), " + std::to_string(k) + " jobs that wait for each other, enqueued " + (from_job ? "by a job" : "from outside");
    World w(16);
    dsched::Sched& S = dsched::S();
    S.context = "rendezvous";
    S.spurious_den = rng.chance(1, 3) ? 8 : 0;   // a third of the scenarios with spurious wake-ups
    S.begin(rng.next(), (int)rng.below(dsched::STRATEGIES));
    {
        tlx::ThreadPool pool(p);
        w.pool = &pool;
        auto party = [&w, k]() {
            w.arrived.fetch_add(1, std::memory_order_relaxed);
            // a logical-step bound, not a clock: each round lets every other runnable thread run
            for (unsigned spins = 0; w.arrived.load(std::memory_order_relaxed) < (int)k; ++spins) {
                if (spins > 30000) { w.rendezvous_failed = true; break; }
                pause_point(true);
            }
        };
        auto enqueue_all = [&w, k, party]() { for (unsigned i = 0; i < k; ++i) w.pool->enqueue(party); };
        // let the workers go to sleep first
        for (int i = 0; i < 6; ++i) pause_point(true);
        if (from_job && k < p) pool.enqueue(enqueue_all); else enqueue_all();
        pool.loop_until_empty();
    }
    dsched::Stats st = S.end();
    verif::count("pool_scenarios");
    verif::count("rendezvous_scenarios");
    verif::distinct(st.hash);
    if (w.rendezvous_failed.load())
        verif::fail("C10:lost-worker-wakeup", "a job waited 30000 scheduling rounds for a queued job to be started although workers were idle | " + g_scenario);
    verif::cover("rendezvous:p=" + std::to_string(p) + ":k=" + std::to_string(k));
}

//! real threads only: many short rounds of p tiny jobs that write plain slots which the waiter reads
//! right after loop_until_empty(); whether that is ordered is for TSan to say
static void scenario_burst(Rng& rng) {
    unsigned p = 2 + (unsigned)rng.below(3);
    unsigned rounds = 400;
    g_scenario = "burst: pool(" + std::to_string(p) + "), " + std::to_string(rounds) + " rounds of " + std::to_string(p) + " tiny jobs";
    dsched::Sched& S = dsched::S();
    S.context = "burst";
    S.begin(rng.next(), 0);
    {
        tlx::ThreadPool pool(p);
        std::vector<int> slot(p, 0);
        for (unsigned r = 1; r <= rounds; ++r) {
            for (unsigned i = 0; i < p; ++i) pool.enqueue([&slot, i, r]() { slot[i] = (int)r; });
            pool.loop_until_empty();
            for (unsigned i = 0; i < p; ++i)
                if (slot[i] != (int)r) { verif::fail("C10:effects-not-visible", "round " + std::to_string(r) + ": job " + std::to_string(i) + "'s write is not visible after loop_until_empty() | " + g_scenario); break; }
            if (pool.done() != (size_t)r * p) { verif::fail("C10:done-count", "done() = " + std::to_string(pool.done()) + " after round " + std::to_string(r) + " | " + g_scenario); break; }
            if (verif::case_failed()) break;
        }
    }
    S.end();
    verif::count("pool_scenarios");
    verif::count("burst_rounds", rounds);
    verif::cover("burst:p=" + std::to_string(p));
}

static void run_case(Rng& rng, uint64_t) {
    for (int r = 0; r < 30; ++r) {
        unsigned x = (unsigned)rng.below(10);
        if (x < 6) scenario_graph(rng);
        else if (x < 9) scenario_terminate(rng);
        else if (!g_serial) scenario_burst(rng);
        else scenario_rendezvous(rng);
        if (verif::case_failed()) break;
    }
}

//! the pool reports a job's exception on std::cerr; the text is of no interest here (and stderr is where the
//! driver looks for sanitizer reports), so it is swallowed
struct NullBuf : std::streambuf { int overflow(int c) override { return c; } std::streamsize xsputn(const char*, std::streamsize n) override { return n; } };
static NullBuf* g_nullbuf = new NullBuf;   // never destroyed: std::cerr is flushed once more at exit

static void init() {
    std::cerr.rdbuf(g_nullbuf);
    verif::property_id() = "C10";
    g_serial = verif::param("mode", "serial") == "serial";
    dsched::S().mode = g_serial ? dsched::SERIAL : dsched::JITTER;
    dsched::S().prop = "C10";
    dsched::S().on_deadlock = print_scenario;
}
VERIF_MAIN_INIT(run_case, init)
