// C18: tlx::StringView vs std::string_view, query by query.
//
// mode=exh   case index = number of the haystack in the enumeration of all byte
//            strings of length 0..5 over {0x00,'a','b',0x80,0xFF}; every needle of
//            length 0..3 over the same alphabet, every pos in {0..size+2, npos-1,
//            npos} and n in {0..size+2, npos} is tried (exhaustive).
// mode=rand  random longer strings (length <= 64) over several alphabets.
#include <verif.hpp>

#include <sys/mman.h>
#include <slice.hpp>

#include <stdexcept>
#include <string>
#include <string_view>

#include <tlx/container/string_view.hpp>

using verif::Rng;
typedef tlx::StringView TV;
typedef std::string_view SV;
static const size_t npos = std::string::npos;

static const unsigned char ALPHA[5] = { 0x00, 'a', 'b', 0x80, 0xFF };

// std::string_view::starts_with / ends_with exist from C++20 on; in a C++17 build of the check the
// reference is their definition in terms of compare()
#if __cplusplus >= 202002L
template <typename X> static bool std_starts_with(std::string_view s, X x) { return s.starts_with(x); }
template <typename X> static bool std_ends_with(std::string_view s, X x) { return s.ends_with(x); }
#else
static bool std_starts_with(std::string_view s, std::string_view x) { return s.size() >= x.size() && s.compare(0, x.size(), x) == 0; }
static bool std_starts_with(std::string_view s, char c) { return !s.empty() && s.front() == c; }
static bool std_ends_with(std::string_view s, std::string_view x) { return s.size() >= x.size() && s.compare(s.size() - x.size(), std::string_view::npos, x) == 0; }
static bool std_ends_with(std::string_view s, char c) { return !s.empty() && s.back() == c; }
#endif

static std::string nth_string(uint64_t idx, size_t maxlen) {
    // enumeration: length 0, then all of length 1, ...
    uint64_t cnt = 1;
    for (size_t len = 0; len <= maxlen; ++len) {
        if (idx < cnt) {
            std::string s(len, '\0');
            for (size_t i = 0; i < len; ++i) { s[i] = (char)ALPHA[idx % 5]; idx /= 5; }
            return s;
        }
        idx -= cnt;
        cnt *= 5;
    }
    return std::string();
}
static uint64_t count_strings(size_t maxlen) {
    uint64_t c = 0, p = 1;
    for (size_t l = 0; l <= maxlen; ++l) { c += p; p *= 5; }
    return c;
}

// current arguments, for the report
static const std::string *g_hay, *g_needle;
static size_t g_pos, g_n, g_pos2, g_n2;
static uint64_t g_calls = 0;
static std::map<std::string, uint64_t> g_per_method;

static std::string posstr(size_t p) {
    if (p == npos) return "npos";
    if (p == npos - 1) return "npos-1";
    return std::to_string(p);
}

static void report(const char* name, const std::string& got, const std::string& want) {
    std::string cls;
    bool nul = g_hay->find('\0') != npos || g_needle->find('\0') != npos;
    bool high = false;
    for (unsigned char c : *g_hay) high |= c >= 0x80;
    for (unsigned char c : *g_needle) high |= c >= 0x80;
    verif::fail(std::string("C18:") + name,
                std::string(name) + " hay=x'" + verif::hex_bytes(*g_hay) + "' arg=x'" +
                verif::hex_bytes(*g_needle) + "' pos=" + posstr(g_pos) + " n=" + posstr(g_n) +
                " pos2=" + posstr(g_pos2) + " n2=" + posstr(g_n2) + " tlx: " + got +
                " std: " + want + (nul ? " [embedded NUL]" : "") + (high ? " [byte>=0x80]" : ""));
}

template <typename T> static std::string show(const T& v) { return std::to_string(v); }
static std::string show(const std::string& v) { return "x'" + verif::hex_bytes(v) + "'"; }
static std::string show(bool v) { return v ? "true" : "false"; }

static inline int sign(int v) { return v < 0 ? -1 : v > 0 ? 1 : 0; }

//! run the tlx call f and the std call g; equal value or same exception kind
template <typename F, typename G>
static inline void chk(const char* name, F&& f, G&& g) {
    ++g_calls;
    typedef decltype(g()) R;
    R sv{}, tv{};
    int se = 0, te = 0;
    try { sv = g(); } catch (const std::out_of_range&) { se = 1; }
    verif::context() = name;
    try { tv = f(); } catch (const std::out_of_range&) { te = 1; } catch (...) { te = 2; }
    verif::context() = "";
    if (se != te)
        report(name, te == 0 ? show(tv) : te == 1 ? "throws out_of_range" : "throws other",
               se == 0 ? show(sv) : "throws out_of_range");
    else if (!se && !(tv == sv))
        report(name, show(tv), show(sv));
}

/******************************************************************************/

//! argument values: all of 0..size+2 plus npos-1, npos for short strings; for long
//! ones the boundary values plus a few random interior ones
static std::vector<size_t> arg_values(size_t size, Rng& rng, bool with_npos1 = true) {
    std::vector<size_t> v;
    if (size <= 8) {
        for (size_t i = 0; i <= size + 2; ++i) v.push_back(i);
    }
    else {
        for (size_t i : { (size_t)0, (size_t)1, size - 1, size, size + 1, size + 2 }) v.push_back(i);
        for (int k = 0; k < 3; ++k) v.push_back(2 + rng.below(size - 3));
    }
    if (with_npos1) v.push_back(npos - 1);
    v.push_back(npos);
    return v;
}

static void check_unary(const std::string& h, Rng& rng) {
    static const std::string empty;
    g_hay = &h; g_needle = &empty; g_pos = g_n = g_pos2 = g_n2 = 0;
    verif::Slice sh(h);   // the viewed bytes are not followed by a terminator
    TV t(sh.data(), h.size());
    SV s(sh.data(), h.size());
    chk("size", [&] { return t.size(); }, [&] { return s.size(); });
    chk("length", [&] { return t.length(); }, [&] { return s.length(); });
    chk("empty", [&] { return t.empty(); }, [&] { return s.empty(); });
    chk("to_string", [&] { return t.to_string(); }, [&] { return std::string(s); });
    chk("operator std::string", [&] { return std::string(t); }, [&] { return std::string(s); });
    chk("iteration", [&] { return std::string(t.begin(), t.end()); },
        [&] { return std::string(s.begin(), s.end()); });
    chk("const iteration", [&] { return std::string(t.cbegin(), t.cend()); },
        [&] { return std::string(s.cbegin(), s.cend()); });
    chk("reverse iteration", [&] { return std::string(t.rbegin(), t.rend()); },
        [&] { return std::string(s.rbegin(), s.rend()); });
    chk("const reverse iteration", [&] { return std::string(t.crbegin(), t.crend()); },
        [&] { return std::string(s.crbegin(), s.crend()); });
    if (!h.empty()) {
        chk("front", [&] { return (int)(unsigned char)t.front(); }, [&] { return (int)(unsigned char)s.front(); });
        chk("back", [&] { return (int)(unsigned char)t.back(); }, [&] { return (int)(unsigned char)s.back(); });
    }
    // construction paths all denote the same range
    chk("ctor(std::string)", [&] { return TV(h).to_string(); }, [&] { return std::string(SV(h)); });
    chk("ctor(std::string_view)", [&] { return TV(s).to_string(); }, [&] { return std::string(s); });
    chk("ctor(iterators)", [&] { return TV(h.begin(), h.end()).to_string(); }, [&] { return h; });
    chk("ctor(const char*)", [&] { return TV(h.c_str()).to_string(); }, [&] { return std::string(SV(h.c_str())); });
    for (size_t pos = 0; pos <= h.size() + 2; ++pos) {
        g_pos = pos;
        chk("at", [&] { return (int)(unsigned char)t.at(pos); }, [&] { return (int)(unsigned char)s.at(pos); });
        if (pos < h.size())
            chk("operator[]", [&] { return (int)(unsigned char)t[pos]; }, [&] { return (int)(unsigned char)s[pos]; });
        if (pos <= h.size()) {
            chk("remove_prefix", [&] { TV c = t; c.remove_prefix(pos); return c.to_string(); },
                [&] { SV c = s; c.remove_prefix(pos); return std::string(c); });
            chk("remove_suffix", [&] { TV c = t; c.remove_suffix(pos); return c.to_string(); },
                [&] { SV c = s; c.remove_suffix(pos); return std::string(c); });
        }
    }
    std::vector<size_t> P = arg_values(h.size(), rng), N = arg_values(h.size(), rng);
    for (size_t pos : P) {
        for (size_t n : N) {
            g_pos = pos; g_n = n;
            chk("substr", [&] { return t.substr(pos, n).to_string(); },
                [&] { return std::string(s.substr(pos, n)); });
            if (n != npos && n != npos - 1) {
                // copy: returned count and exactly the bytes written
                chk("copy", [&] {
                        std::string b(h.size() + 8, '#');
                        size_t r = t.copy(&b[0], n, pos);
                        return std::to_string(r) + ":" + b; },
                    [&] {
                        std::string b(h.size() + 8, '#');
                        size_t r = s.copy(&b[0], n, pos);
                        return std::to_string(r) + ":" + b; });
            }
        }
        chk("substr(pos)", [&] { return t.substr(pos).to_string(); }, [&] { return std::string(s.substr(pos)); });
    }
    { TV a = t, b("xyz"); a.swap(b);
      if (b.to_string() != h || a.to_string() != "xyz") report("swap", "mismatch", "swapped"); }
    { TV a = t; a.clear(); if (!a.empty() || a.size() != 0) report("clear", "not empty", "empty"); }
}

static void check_pair(const std::string& h, const std::string& x, Rng& rng, bool full) {
    g_hay = &h; g_needle = &x; g_pos = g_n = g_pos2 = g_n2 = 0;
    verif::Slice sh(h), sxs(x);   // the viewed bytes are not followed by a terminator
    TV t(sh.data(), h.size()), tx(sxs.data(), x.size());
    SV s(sh.data(), h.size()), sx(sxs.data(), x.size());
    const char* xc = x.c_str();  // C string: ends at the first NUL, for both sides

    chk("compare(view)", [&] { return sign(t.compare(tx)); }, [&] { return sign(s.compare(sx)); });
    chk("compare(const char*)", [&] { return sign(t.compare(xc)); }, [&] { return sign(s.compare(xc)); });
    chk("operator==(view,view)", [&] { return t == tx; }, [&] { return s == sx; });
    chk("operator!=(view,view)", [&] { return t != tx; }, [&] { return s != sx; });
    chk("operator<(view,view)", [&] { return t < tx; }, [&] { return s < sx; });
    chk("operator<=(view,view)", [&] { return t <= tx; }, [&] { return s <= sx; });
    chk("operator>(view,view)", [&] { return t > tx; }, [&] { return s > sx; });
    chk("operator>=(view,view)", [&] { return t >= tx; }, [&] { return s >= sx; });
    chk("operator==(view,string)", [&] { return t == x; }, [&] { return s == x; });
    chk("operator==(string,view)", [&] { return x == t; }, [&] { return x == s; });
    chk("operator!=(view,string)", [&] { return t != x; }, [&] { return s != x; });
    chk("operator!=(string,view)", [&] { return x != t; }, [&] { return x != s; });
    chk("operator<(view,string)", [&] { return t < x; }, [&] { return s < x; });
    chk("operator<(string,view)", [&] { return x < t; }, [&] { return x < s; });
    chk("operator<=(view,string)", [&] { return t <= x; }, [&] { return s <= x; });
    chk("operator<=(string,view)", [&] { return x <= t; }, [&] { return x <= s; });
    chk("operator>(view,string)", [&] { return t > x; }, [&] { return s > x; });
    chk("operator>(string,view)", [&] { return x > t; }, [&] { return x > s; });
    chk("operator>=(view,string)", [&] { return t >= x; }, [&] { return s >= x; });
    chk("operator>=(string,view)", [&] { return x >= t; }, [&] { return x >= s; });
    chk("operator==(view,char*)", [&] { return t == xc; }, [&] { return s == xc; });
    chk("operator==(char*,view)", [&] { return xc == t; }, [&] { return xc == s; });
    chk("operator!=(view,char*)", [&] { return t != xc; }, [&] { return s != xc; });
    chk("operator!=(char*,view)", [&] { return xc != t; }, [&] { return xc != s; });
    chk("operator<(view,char*)", [&] { return t < xc; }, [&] { return s < xc; });
    chk("operator<(char*,view)", [&] { return xc < t; }, [&] { return xc < s; });
    chk("operator<=(view,char*)", [&] { return t <= xc; }, [&] { return s <= xc; });
    chk("operator<=(char*,view)", [&] { return xc <= t; }, [&] { return xc <= s; });
    chk("operator>(view,char*)", [&] { return t > xc; }, [&] { return s > xc; });
    chk("operator>(char*,view)", [&] { return xc > t; }, [&] { return xc > s; });
    chk("operator>=(view,char*)", [&] { return t >= xc; }, [&] { return s >= xc; });
    chk("operator>=(char*,view)", [&] { return xc >= t; }, [&] { return xc >= s; });
    chk("starts_with(view)", [&] { return t.starts_with(tx); }, [&] { return std_starts_with(s, sx); });
    chk("ends_with(view)", [&] { return t.ends_with(tx); }, [&] { return std_ends_with(s, sx); });
    if (!x.empty()) {
        char c = x[0];
        chk("starts_with(char)", [&] { return t.starts_with(c); }, [&] { return std_starts_with(s, c); });
        chk("ends_with(char)", [&] { return t.ends_with(c); }, [&] { return std_ends_with(s, c); });
    }
    // hash must be consistent with ==
    if (h == x) {
        std::string copy = x;
        if (std::hash<TV>()(t) != std::hash<TV>()(TV(copy.data(), copy.size())))
            report("hash", "differs for equal views", "equal");
    }

    std::vector<size_t> P = arg_values(h.size(), rng), N = arg_values(h.size(), rng, false);
    for (size_t pos : P) {
        g_pos = pos; g_n = 0;
#define FINDFAM(NAME)                                                                          \
        chk(#NAME "(view,pos)", [&] { return t.NAME(tx, pos); }, [&] { return s.NAME(sx, pos); }); \
        chk(#NAME "(char*,pos)", [&] { return t.NAME(xc, pos); }, [&] { return s.NAME(xc, pos); }); \
        if (!x.empty())                                                                         \
            chk(#NAME "(char,pos)", [&] { return t.NAME(x[0], pos); }, [&] { return s.NAME(x[0], pos); }); \
        for (size_t n = 0; n <= x.size(); n += (x.size() > 8 ? 1 + x.size() / 5 : 1)) {         \
            g_n = n;                                                                            \
            chk(#NAME "(char*,pos,n)", [&] { return t.NAME(x.data(), pos, n); },                \
                [&] { return s.NAME(x.data(), pos, n); });                                      \
        }
        FINDFAM(find)
        FINDFAM(rfind)
        FINDFAM(find_first_of)
        FINDFAM(find_last_of)
        FINDFAM(find_first_not_of)
        FINDFAM(find_last_not_of)
#undef FINDFAM
        for (size_t n : N) {
            g_pos = pos; g_n = n; g_pos2 = g_n2 = 0;
            chk("compare(pos,n,view)", [&] { return sign(t.compare(pos, n, tx)); },
                [&] { return sign(s.compare(pos, n, sx)); });
            chk("compare(pos,n,char*)", [&] { return sign(t.compare(pos, n, xc)); },
                [&] { return sign(s.compare(pos, n, xc)); });
            // needle-side arguments: all for `full`, two random choices otherwise
            size_t reps = full ? (x.size() + 4) * (x.size() + 4) : 2;
            for (size_t r = 0; r < reps; ++r) {
                size_t p2i = full ? r / (x.size() + 4) : rng.below(x.size() + 4);
                size_t n2i = full ? r % (x.size() + 4) : rng.below(x.size() + 4);
                size_t pos2 = p2i <= x.size() + 2 ? p2i : npos;
                size_t n2 = n2i <= x.size() + 2 ? n2i : npos;
                g_pos2 = pos2; g_n2 = n2;
                chk("compare(pos,n,view,pos2,n2)",
                    [&] { return sign(t.compare(pos, n, tx, pos2, n2)); },
                    [&] { return sign(s.compare(pos, n, sx, pos2, n2)); });
                if (n2 <= x.size())
                    chk("compare(pos,n,char*,n2)",
                        [&] { return sign(t.compare(pos, n, x.data(), n2)); },
                        [&] { return sign(s.compare(pos, n, x.data(), n2)); });
            }
        }
    }
    // default arguments
    g_pos = g_n = g_pos2 = g_n2 = 0;
    chk("find(view)", [&] { return t.find(tx); }, [&] { return s.find(sx); });
    chk("rfind(view)", [&] { return t.rfind(tx); }, [&] { return s.rfind(sx); });
    chk("find_first_of(view)", [&] { return t.find_first_of(tx); }, [&] { return s.find_first_of(sx); });
    chk("find_last_of(view)", [&] { return t.find_last_of(tx); }, [&] { return s.find_last_of(sx); });
    chk("find_first_not_of(view)", [&] { return t.find_first_not_of(tx); }, [&] { return s.find_first_not_of(sx); });
    chk("find_last_not_of(view)", [&] { return t.find_last_not_of(tx); }, [&] { return s.find_last_not_of(sx); });
}

// Views that share storage: two sub-ranges of ONE buffer (same data() with different lengths, nested,
// overlapping, adjacent), as produced by substr / remove_prefix / remove_suffix on a common view.
// Nothing in the class may conclude anything from the addresses alone.
static void check_shared(const std::string& h, Rng& rng) {
    static const std::string none;
    g_hay = &h; g_needle = &none;
    verif::Slice sh(h);
    std::vector<std::pair<size_t, size_t> > R;   // (pos, n) sub-ranges
    if (h.size() <= 5) { for (size_t p = 0; p <= h.size(); ++p) for (size_t n = 0; p + n <= h.size(); ++n) R.push_back({ p, n }); }
    else {
        for (int k = 0; k < 10; ++k) { size_t p = rng.below(h.size() + 1); R.push_back({ p, rng.below(h.size() - p + 1) }); }
        R.push_back({ 0, h.size() }); R.push_back({ 0, h.size() - 1 }); R.push_back({ 0, 0 }); R.push_back({ 1, h.size() - 1 }); R.push_back({ h.size(), 0 });
    }
    for (auto& a : R) for (auto& b : R) {
        g_pos = a.first; g_n = a.second; g_pos2 = b.first; g_n2 = b.second;
        TV t(sh.data() + a.first, a.second), tx(sh.data() + b.first, b.second);
        SV s(sh.data() + a.first, a.second), sx(sh.data() + b.first, b.second);
        chk("shared-storage:operator==(view,view)", [&] { return t == tx; }, [&] { return s == sx; });
        chk("shared-storage:operator!=(view,view)", [&] { return t != tx; }, [&] { return s != sx; });
        chk("shared-storage:operator<(view,view)", [&] { return t < tx; }, [&] { return s < sx; });
        chk("shared-storage:operator<=(view,view)", [&] { return t <= tx; }, [&] { return s <= sx; });
        chk("shared-storage:operator>(view,view)", [&] { return t > tx; }, [&] { return s > sx; });
        chk("shared-storage:operator>=(view,view)", [&] { return t >= tx; }, [&] { return s >= sx; });
        chk("shared-storage:compare(view)", [&] { return sign(t.compare(tx)); }, [&] { return sign(s.compare(sx)); });
        chk("shared-storage:starts_with(view)", [&] { return t.starts_with(tx); }, [&] { return std_starts_with(s, sx); });
        chk("shared-storage:ends_with(view)", [&] { return t.ends_with(tx); }, [&] { return std_ends_with(s, sx); });
        chk("shared-storage:find(view)", [&] { return t.find(tx); }, [&] { return s.find(sx); });
        chk("shared-storage:rfind(view)", [&] { return t.rfind(tx); }, [&] { return s.rfind(sx); });
        chk("shared-storage:find_first_of(view)", [&] { return t.find_first_of(tx); }, [&] { return s.find_first_of(sx); });
        chk("shared-storage:find_last_not_of(view)", [&] { return t.find_last_not_of(tx); }, [&] { return s.find_last_not_of(sx); });
        if ((t == tx) && std::hash<TV>()(t) != std::hash<TV>()(tx)) report("shared-storage:hash", "differs for equal views", "equal");
    }
    {   // NUL-terminated buffer: view of a prefix against the C string it starts
        std::string z = h.substr(0, h.find('\0'));
        const char* zc = z.c_str();
        for (size_t n = 0; n <= z.size(); ++n) {
            g_pos = 0; g_n = n; g_needle = &z;
            TV t(zc, n); SV s(zc, n);
            chk("shared-storage:operator==(view,char*)", [&] { return t == zc; }, [&] { return s == zc; });
            chk("shared-storage:operator!=(char*,view)", [&] { return zc != t; }, [&] { return zc != s; });
            chk("shared-storage:compare(char*)", [&] { return sign(t.compare(zc)); }, [&] { return sign(s.compare(zc)); });
        }
    }
    // derived from one view by the modifiers
    for (size_t k = 0; k <= h.size() && k <= 6; ++k) {
        g_pos = k; g_n = 0; g_needle = &none;
        TV t(sh.data(), h.size()), u = t; SV s(sh.data(), h.size()), v = s;
        u.remove_suffix(k); v.remove_suffix(k);
        chk("shared-storage:view == view.remove_suffix(k)", [&] { return t == u; }, [&] { return s == v; });
        chk("shared-storage:view.remove_suffix(k) == view", [&] { return u == t; }, [&] { return v == s; });
        chk("shared-storage:view == view.substr(0,k)", [&] { return t == t.substr(0, k); }, [&] { return s == s.substr(0, k); });
        TV c = t; c.clear();
        chk("shared-storage:view == cleared copy", [&] { return t == c; }, [&] { return s == SV(); });
    }
    verif::count("shared_storage_range_pairs", R.size() * R.size());
}

// Empty views without storage (data() == nullptr): default-constructed, (nullptr, 0), from an empty
// std::string_view, cleared - against std::string_view() and against non-null views.
static void check_null(const std::string& x, Rng& rng) {
    static const std::string none;
    g_hay = &none; g_needle = &x; g_pos = g_n = g_pos2 = g_n2 = 0;
    verif::Slice sxs(x);
    TV tx(sxs.data(), x.size()); SV sx(sxs.data(), x.size());
    const char* xc = x.c_str();
    TV nulls[3] = { TV(), TV(static_cast<const char*>(nullptr), (size_t)0), TV(SV()) };
    SV s;
    for (TV& t : nulls) {
        chk("null-view:size", [&] { return t.size(); }, [&] { return s.size(); });
        chk("null-view:empty", [&] { return t.empty(); }, [&] { return s.empty(); });
        chk("null-view:to_string", [&] { return t.to_string(); }, [&] { return std::string(s); });
        chk("null-view:iteration", [&] { return std::string(t.begin(), t.end()); }, [&] { return std::string(s.begin(), s.end()); });
        chk("null-view:reverse iteration", [&] { return std::string(t.rbegin(), t.rend()); }, [&] { return std::string(s.rbegin(), s.rend()); });
        chk("null-view:operator==(view,view)", [&] { return t == tx; }, [&] { return s == sx; });
        chk("null-view:operator==(view,view) reversed", [&] { return tx == t; }, [&] { return sx == s; });
        chk("null-view:operator!=(view,view)", [&] { return t != tx; }, [&] { return s != sx; });
        chk("null-view:operator<(view,view)", [&] { return t < tx; }, [&] { return s < sx; });
        chk("null-view:operator<(view,view) reversed", [&] { return tx < t; }, [&] { return sx < s; });
        chk("null-view:operator==(view,string)", [&] { return t == x; }, [&] { return s == x; });
        chk("null-view:operator==(view,char*)", [&] { return t == xc; }, [&] { return s == xc; });
        chk("null-view:compare(view)", [&] { return sign(t.compare(tx)); }, [&] { return sign(s.compare(sx)); });
        chk("null-view:compare(view) reversed", [&] { return sign(tx.compare(t)); }, [&] { return sign(sx.compare(s)); });
        chk("null-view:starts_with(view)", [&] { return t.starts_with(tx); }, [&] { return std_starts_with(s, sx); });
        chk("null-view:ends_with(view)", [&] { return t.ends_with(tx); }, [&] { return std_ends_with(s, sx); });
        chk("null-view:starts_with(null view)", [&] { return tx.starts_with(t); }, [&] { return std_starts_with(sx, s); });
        chk("null-view:ends_with(null view)", [&] { return tx.ends_with(t); }, [&] { return std_ends_with(sx, s); });
        for (size_t pos : { (size_t)0, (size_t)1, (size_t)2, x.size(), x.size() + 1, npos }) {
            g_pos = pos;
#define NULLFAM(NAME)                                                                                   \
            chk("null-view:" #NAME "(view,pos)", [&] { return t.NAME(tx, pos); }, [&] { return s.NAME(sx, pos); });       \
            chk("null-view:" #NAME "(null view,pos)", [&] { return tx.NAME(t, pos); }, [&] { return sx.NAME(s, pos); });  \
            chk("null-view:" #NAME "(char*,pos)", [&] { return t.NAME(xc, pos); }, [&] { return s.NAME(xc, pos); });      \
            chk("null-view:" #NAME "(char,pos)", [&] { return t.NAME('a', pos); }, [&] { return s.NAME('a', pos); });
            NULLFAM(find)
            NULLFAM(rfind)
            NULLFAM(find_first_of)
            NULLFAM(find_last_of)
            NULLFAM(find_first_not_of)
            NULLFAM(find_last_not_of)
#undef NULLFAM
            chk("null-view:substr(pos)", [&] { return t.substr(pos).to_string(); }, [&] { return std::string(s.substr(pos)); });
            chk("null-view:compare(pos,n,view)", [&] { return sign(t.compare(pos, 1, tx)); }, [&] { return sign(s.compare(pos, 1, sx)); });
            chk("null-view:at", [&] { return (int)t.at(pos); }, [&] { return (int)s.at(pos); });
            chk("null-view:copy", [&] { std::string b(4, '#'); size_t r = t.copy(&b[0], 2, pos); return std::to_string(r) + ":" + b; },
                [&] { std::string b(4, '#'); size_t r = s.copy(&b[0], 2, pos); return std::to_string(r) + ":" + b; });
        }
        g_pos = 0;
        chk("null-view:find(view)", [&] { return t.find(tx); }, [&] { return s.find(sx); });
        chk("null-view:rfind(view)", [&] { return t.rfind(tx); }, [&] { return s.rfind(sx); });
        chk("null-view:find(null view)", [&] { return t.find(TV()); }, [&] { return s.find(SV()); });
        chk("null-view:rfind(null view)", [&] { return t.rfind(TV()); }, [&] { return s.rfind(SV()); });
        if (std::hash<TV>()(t) != std::hash<TV>()(TV(xc, (size_t)0))) report("null-view:hash", "differs from the hash of a non-null empty view", "equal");
    }
    (void)rng;
    verif::count("null_view_rounds");
}

// mode=huge: views of more than 2^31 and 2^32 bytes (all-zero bytes in untouched anonymous pages, so they
// cost no memory): sizes, size differences and positions that do not fit 32 bits.
static void mode_huge(Rng& rng) {
    static const std::string none;
    g_hay = &none; g_needle = &none; g_pos = g_n = g_pos2 = g_n2 = 0;
    const size_t G2 = (size_t)1 << 31, G4 = (size_t)1 << 32, MAP = G4 + 4096;
    void* mem = mmap(nullptr, MAP, PROT_READ, MAP_PRIVATE | MAP_ANONYMOUS | MAP_NORESERVE, -1, 0);
    if (mem == MAP_FAILED) { verif::count("huge_mmap_failed"); return; }
    const char* z = static_cast<const char*>(mem);
    const std::vector<size_t> small = { 0, 1, 3 }, big = { G2 - 1, G2, G2 + 3, G4 - 1, G4, G4 + 3 };
    auto pair = [&](size_t a, size_t b, bool deep) {
        g_pos = a; g_n = b;   // reported as pos / n: the two view lengths
        TV t(z, a), tx(z + (rng.coin() ? 0 : 1), b);   // equal content, same or different start
        SV s(t.data(), a), sx(tx.data(), b);
        chk("huge:size", [&] { return t.size(); }, [&] { return s.size(); });
        chk("huge:compare(view)", [&] { return sign(t.compare(tx)); }, [&] { return sign(s.compare(sx)); });
        chk("huge:operator==(view,view)", [&] { return t == tx; }, [&] { return s == sx; });
        chk("huge:operator!=(view,view)", [&] { return t != tx; }, [&] { return s != sx; });
        chk("huge:operator<(view,view)", [&] { return t < tx; }, [&] { return s < sx; });
        chk("huge:operator<=(view,view)", [&] { return t <= tx; }, [&] { return s <= sx; });
        chk("huge:operator>(view,view)", [&] { return t > tx; }, [&] { return s > sx; });
        chk("huge:operator>=(view,view)", [&] { return t >= tx; }, [&] { return s >= sx; });
        chk("huge:starts_with(view)", [&] { return t.starts_with(tx); }, [&] { return std_starts_with(s, sx); });
        chk("huge:ends_with(view)", [&] { return t.ends_with(tx); }, [&] { return std_ends_with(s, sx); });
        chk("huge:compare(pos,n,view)", [&] { return sign(t.compare(a / 2, npos, tx)); }, [&] { return sign(s.compare(a / 2, npos, sx)); });
        chk("huge:compare(pos,n,view,pos2,n2)", [&] { return sign(t.compare(a / 2, npos, tx, b / 2, npos)); }, [&] { return sign(s.compare(a / 2, npos, sx, b / 2, npos)); });
        chk("huge:substr(pos).size", [&] { return t.substr(a / 2 + a / 4).size(); }, [&] { return s.substr(a / 2 + a / 4).size(); });
        chk("huge:substr(pos,n).size", [&] { return t.substr(a / 4, a / 2).size(); }, [&] { return s.substr(a / 4, a / 2).size(); });
        chk("huge:remove_prefix", [&] { TV c = t; c.remove_prefix(a / 2); return c.size(); }, [&] { SV c = s; c.remove_prefix(a / 2); return c.size(); });
        chk("huge:remove_suffix", [&] { TV c = t; c.remove_suffix(a / 2); return c.size(); }, [&] { SV c = s; c.remove_suffix(a / 2); return c.size(); });
        if (deep) {
            // scans over the whole view: a byte that does not occur, the empty needle at the far end
            chk("huge:find(char)", [&] { return t.find('x'); }, [&] { return s.find('x'); });
            chk("huge:rfind(char)", [&] { return t.rfind('\0'); }, [&] { return s.rfind('\0'); });
            chk("huge:find(char,pos)", [&] { return t.find('\0', a - 1); }, [&] { return s.find('\0', a - 1); });
            chk("huge:find_first_not_of(char)", [&] { return t.find_first_not_of('\0'); }, [&] { return s.find_first_not_of('\0'); });
            chk("huge:find_last_of(char)", [&] { return t.find_last_of('\0'); }, [&] { return s.find_last_of('\0'); });
            chk("huge:rfind(empty view)", [&] { return t.rfind(TV()); }, [&] { return s.rfind(SV()); });
            chk("huge:find(empty view,pos)", [&] { return t.find(TV(), a); }, [&] { return s.find(SV(), a); });
        }
        verif::count("huge_view_pairs");
    };
    for (size_t a : small) for (size_t b : big) { pair(a, b, false); pair(b, a, false); }
    // big against big: the comparison reads min(a, b) bytes, so only a few
    pair(G2, G4 + 3, false); pair(G4 + 3, G2, false); pair(G2 + 3, G2 + 3, false); pair(G2 - 1, G2, false); pair(G4, G4 - 1, true); pair(G2 + 3, 3, true);
    munmap(mem, MAP);
    verif::cover("huge:views-up-to-2^32+3");
    verif::sample("huge: views of 0,1,3 and 2^31-1 .. 2^32+3 zero bytes against each other: compare / relational operators / starts_with / ends_with / substr / find");
}

static std::string rand_string(Rng& rng, size_t maxlen, int alpha) {
    size_t len = rng.below(maxlen + 1);
    std::string s(len, 'a');
    for (auto& c : s) {
        switch (alpha) {
        case 0: c = (char)ALPHA[rng.below(5)]; break;
        case 1: c = (char)('a' + rng.below(2)); break;
        case 2: c = (char)rng.below(256); break;
        default: c = (char)(rng.chance(1, 6) ? 0 : 'a' + rng.below(3)); break;
        }
    }
    return s;
}

static void run_case(Rng& rng, uint64_t index) {
    std::string mode = verif::param("mode", "exh");
    uint64_t c0 = g_calls;
    if (mode == "huge") { mode_huge(rng); verif::count("calls_compared", g_calls - c0); return; }
    if (mode == "exh") {
        const uint64_t nh = count_strings(5), nn = count_strings(3);
        // stride>1: a residue class of the enumeration, chosen by the seed
        uint64_t stride = (uint64_t)verif::param_int("stride", 1);
        uint64_t hidx = index * stride + (stride > 1 ? verif::st().seed % stride : 0);
        if (hidx >= nh) return;
        std::string h = nth_string(hidx, 5);
        check_unary(h, rng);
        check_shared(h, rng);
        bool full = verif::param_int("full", 0) != 0;
        for (uint64_t j = 0; j < nn; ++j) {
            std::string x = nth_string(j, 3);
            check_pair(h, x, rng, full);
        }
        if (hidx < nn) check_null(h, rng);   // every needle of length 0..3 against the views without storage
        // the haystack also as needle of itself and of its extensions (equal / prefix pairs)
        check_pair(h, h, rng, full);
        std::string hx = h + "a"; check_pair(h, hx, rng, false); check_pair(hx, h, rng, false);
        std::string h0 = h + std::string(1, '\0'); check_pair(h, h0, rng, false); check_pair(h0, h, rng, false);
        verif::cover("exh:haystack-len=" + std::to_string(h.size()));
        verif::count("exh_haystacks");
        verif::count("exh_pairs", nn + 5);
        if (verif::want_sample(3))
            verif::sample("haystack x'" + verif::hex_bytes(h) + "' x all " + std::to_string(nn) +
                          " needles of length 0..3 over {00,61,62,80,ff}, all pos/n");
    }
    else {
        for (int r = 0; r < 20; ++r) {
            int alpha = (int)rng.below(4);
            std::string h = rand_string(rng, 64, alpha);
            check_unary(h, rng);
            check_shared(h, rng);
            if (r < 4) check_null(rand_string(rng, 6, alpha), rng);
            for (int k = 0; k < 6; ++k) {
                std::string x;
                switch (rng.below(4)) {
                case 0: x = rand_string(rng, 6, alpha); break;
                case 1: if (!h.empty()) { size_t p = rng.below(h.size()); x = h.substr(p, rng.below(h.size() - p + 1)); } break;
                case 2: x = h; if (!x.empty() && rng.coin()) x[rng.below(x.size())] ^= (char)0x80; break;
                case 3: x = h + rand_string(rng, 3, alpha); break;
                }
                check_pair(h, x, rng, false);
            }
            verif::cover("rand:alphabet=" + std::to_string(alpha) + ":len-class=" + std::to_string(h.size() / 16));
        }
        verif::count("rand_cases");
    }
    verif::count("calls_compared", g_calls - c0);
}

static void init() { verif::property_id() = "C18"; }

VERIF_MAIN_INIT(run_case, init)
