// C14: MD5 / SHA-1 / SHA-256 / SHA-512 under every chunking, and SipHash-2-4
// (plain vs SSE2 vs dispatcher) at every alignment.
//
// In-process monitor: every chunking of a message must give the same raw digest
// as the single process() call; hex forms must be the hex of the raw digest; all
// SipHash implementations must agree at every alignment.
// Offline oracle: one record per (algorithm, message) is appended to <out>.log
// and recomputed with python hashlib / an independent SipHash (oracle/c14_oracle.py).
//
// mode=len   case index = message length L (every L in 0..1100)
// mode=long  case index = random long message (repeated pattern), random chunking
// mode=sip   case index = key number; lengths 0..129 x offsets 0..15
#include <verif.hpp>

#include <memory>
#include <slice.hpp>

#include <tlx/digest/md5.hpp>
#include <tlx/digest/sha1.hpp>
#include <tlx/digest/sha256.hpp>
#include <tlx/digest/sha512.hpp>
#include <tlx/siphash.hpp>

#include <sys/mman.h>

static std::vector<std::string> g_trace;   // what the running case is doing, printed if it dies

using verif::Rng;

static FILE* g_log = nullptr;
static uint64_t g_records = 0;

// message generator shared with the python oracle
//   kind 0: byte i = (mix64(seed + i/8) >> 8*(i%8)) & 0xff
//   kind 1: all 0x00   kind 2: all 0xff
//   kind 4: kind 0 with bit 7 of every byte set
//   kind 3: pattern of length plen = 1 + seed % 251 (bytes of kind 0), repeated
static std::string gen_message(int kind, uint64_t seed, size_t len) {
    std::string m(len, '\0');
    if (kind == 1) return m;
    if (kind == 2) return std::string(len, '\xff');
    if (kind == 0) {
        for (size_t i = 0; i < len; ++i)
            m[i] = (char)((verif::mix64(seed + i / 8) >> (8 * (i % 8))) & 0xff);
        return m;
    }
    if (kind == 4) {
        m = gen_message(0, seed, len);
        for (auto& c : m) c |= (char)0x80;
        return m;
    }
    size_t plen = 1 + seed % 251;
    std::string pat = gen_message(0, seed, plen);
    for (size_t i = 0; i < len; ++i) m[i] = pat[i % plen];
    return m;
}

static std::string hexlc(const std::string& raw) { return verif::hex_bytes(raw); }
static std::string hexuc(const std::string& raw) {
    std::string h = verif::hex_bytes(raw);
    for (auto& c : h) c = (char)toupper(c);
    return h;
}

struct MsgId {
    int kind; uint64_t seed; size_t len;
    std::string str() const { return "kind=" + std::to_string(kind) + " seed=" + std::to_string(seed) + " len=" + std::to_string(len); }
};

static uint64_t g_chunkings = 0;

template <typename H>
struct Algo {
    const char* name;
    size_t block;
    std::string (*hex_ptr)(const void*, std::uint32_t);
    std::string (*hex_sv)(tlx::string_view);
    std::string (*hexuc_ptr)(const void*, std::uint32_t);
    std::string (*hexuc_sv)(tlx::string_view);
};

//! feed msg to h in the chunks given by cut points (sorted, within [0,len])
template <typename H>
static std::string digest_chunked(const std::string& msg, const std::vector<size_t>& cuts, bool via_sv) {
    verif::Slice m(msg);   // the message bytes are not followed by a terminator or slack
    // the context object is copied (and the original destroyed) in the middle of the stream:
    // a digest in progress is a value
    std::unique_ptr<H> hp(new H());
    size_t prev = 0, k = 0;
    for (size_t c : cuts) {
        if (via_sv) hp->process(tlx::string_view(m.data() + prev, c - prev));
        else hp->process(m.data() + prev, (std::uint32_t)(c - prev));
        prev = c;
        if (++k == (cuts.size() + 1) / 2) { std::unique_ptr<H> copy(new H(*hp)); hp.swap(copy); }
    }
    if (via_sv) hp->process(tlx::string_view(m.data() + prev, m.size() - prev));
    else hp->process(m.data() + prev, (std::uint32_t)(m.size() - prev));
    ++g_chunkings;
    H last = *hp;     // and once more right before finishing
    hp.reset();
    return last.digest();
}

template <typename H>
static void check_message(const Algo<H>& A, const MsgId& id, const std::string& msg, Rng& rng,
                          size_t all_splits_upto) {
    std::string key = std::string("C14:") + A.name;
    verif::Slice m(msg);   // the one-shot entry points read from a block without terminator or slack
    // one-shot reference within tlx
    H h0;
    h0.process(m.data(), (std::uint32_t)m.size());
    H h1 = h0, h2 = h0;
    std::string raw = h0.digest();
    if (raw.size() != H::kDigestLength) verif::fail(key + ":digest-length", id.str());
    if (h1.digest_hex() != hexlc(raw)) verif::fail(key + ":digest_hex", id.str());
    if (h2.digest_hex_uc() != hexuc(raw)) verif::fail(key + ":digest_hex_uc", id.str());
    {   // finalize(void*)
        H h; h.process(m.data(), (std::uint32_t)m.size());
        std::string buf(H::kDigestLength + 4, '#');
        h.finalize(&buf[0]);
        if (buf.substr(0, H::kDigestLength) != raw || buf.substr(H::kDigestLength) != "####")
            verif::fail(key + ":finalize", id.str());
    }
    // constructors and helpers
    if (H(m.data(), (std::uint32_t)m.size()).digest() != raw) verif::fail(key + ":ctor(ptr,size)", id.str());
    if (H(tlx::string_view(m.data(), m.size())).digest() != raw) verif::fail(key + ":ctor(string_view)", id.str());
    if (A.hex_ptr(m.data(), (std::uint32_t)m.size()) != hexlc(raw)) verif::fail(key + ":_hex(ptr,size)", id.str());
    if (A.hex_sv(tlx::string_view(m.data(), m.size())) != hexlc(raw)) verif::fail(key + ":_hex(string_view)", id.str());
    if (A.hexuc_ptr(m.data(), (std::uint32_t)m.size()) != hexuc(raw)) verif::fail(key + ":_hex_uc(ptr,size)", id.str());
    if (A.hexuc_sv(tlx::string_view(m.data(), m.size())) != hexuc(raw)) verif::fail(key + ":_hex_uc(string_view)", id.str());

    {   // empty chunks given as a range without storage (data() == nullptr: a default-constructed view, the
        // data()/size() of an empty vector) before, inside and after the message
        verif::context() = "null-range";
        H h;
        size_t cut = m.size() ? rng.below(m.size() + 1) : 0;
        h.process(static_cast<const void*>(nullptr), 0);
        h.process(m.data(), (std::uint32_t)cut);
        h.process(tlx::string_view());
        h.process(m.data() + cut, (std::uint32_t)(m.size() - cut));
        h.process(static_cast<const void*>(nullptr), 0);
        if (h.digest() != raw) verif::fail(key + ":null-range-chunk", id.str() + " with process(nullptr, 0) / process(string_view()) calls in between");
        if (m.size() == 0) {
            if (H(tlx::string_view()).digest() != raw || H(static_cast<const void*>(nullptr), 0).digest() != raw ||
                A.hex_sv(tlx::string_view()) != hexlc(raw) || A.hexuc_sv(tlx::string_view()) != hexuc(raw) ||
                A.hex_ptr(nullptr, 0) != hexlc(raw) || A.hexuc_ptr(nullptr, 0) != hexuc(raw))
                verif::fail(key + ":null-range-message", "the empty message given as a range without storage");
            verif::count(std::string("null_range_messages:") + A.name);
        }
        verif::context() = "";
    }

    auto expect = [&](const std::vector<size_t>& cuts, bool sv, const char* what) {
        std::string d = digest_chunked<H>(msg, cuts, sv);
        if (d != raw) {
            verif::fail(key + ":chunking", id.str() + " " + what + " cuts=[" +
                        verif::join_range(cuts.begin(), cuts.end()) + "] digest " + hexlc(d) +
                        " but single call gives " + hexlc(raw));
            return false;
        }
        return true;
    };
    size_t L = m.size();
    bool ok = true;
    // every two-call split
    if (L <= all_splits_upto) {
        for (size_t p = 0; p <= L && ok; ++p) ok = expect({ p }, (p & 1) != 0, "two calls");
        verif::count(std::string("all_two_call_splits:") + A.name);
    }
    else {
        for (int k = 0; k < 12 && ok; ++k) ok = expect({ (size_t)rng.below(L + 1) }, rng.coin(), "two calls");
    }
    // one byte per call
    if (ok && L <= 400) {
        std::vector<size_t> cuts;
        for (size_t p = 1; p < L; ++p) cuts.push_back(p);
        ok = expect(cuts, false, "1-byte calls");
    }
    // chunks of block-1, block, block+1 and mixtures
    for (size_t cs : { A.block - 1, A.block, A.block + 1, (size_t)1 + rng.below(2 * A.block) }) {
        if (!ok) break;
        std::vector<size_t> cuts;
        for (size_t p = cs; p < L; p += cs) cuts.push_back(p);
        ok = expect(cuts, rng.coin(), "fixed-size chunks");
    }
    // random partitions with empty chunks
    for (int k = 0; k < 4 && ok; ++k) {
        std::vector<size_t> cuts;
        size_t nc = rng.below(8);
        for (size_t i = 0; i < nc; ++i) cuts.push_back(rng.below(L + 1));
        if (rng.coin() && !cuts.empty()) cuts.push_back(cuts[0]);       // an empty chunk
        if (rng.chance(1, 4)) { cuts.push_back(0); cuts.push_back(L); }  // empty first / last
        std::sort(cuts.begin(), cuts.end());
        ok = expect(cuts, rng.coin(), "random partition");
    }
    // first short chunk, then a chunk crossing the next block boundary (and the reverse)
    for (int k = 0; k < 4 && ok && L > A.block; ++k) {
        size_t a = 1 + rng.below(A.block - 1);
        ok = expect({ a }, false, "short then rest") &&
             expect({ a, std::min(L, a + A.block + rng.below(A.block)) }, false, "short, crossing, rest");
    }
    if (g_log) {
        fprintf(g_log, "%s %d %llu %zu %s\n", A.name, id.kind, (unsigned long long)id.seed, id.len,
                hexlc(raw).c_str());
        ++g_records;
    }
}

static const Algo<tlx::MD5> A_MD5 = { "md5", 64, tlx::md5_hex, tlx::md5_hex, tlx::md5_hex_uc, tlx::md5_hex_uc };
static const Algo<tlx::SHA1> A_SHA1 = { "sha1", 64, tlx::sha1_hex, tlx::sha1_hex, tlx::sha1_hex_uc, tlx::sha1_hex_uc };
static const Algo<tlx::SHA256> A_SHA256 = { "sha256", 64, tlx::sha256_hex, tlx::sha256_hex, tlx::sha256_hex_uc, tlx::sha256_hex_uc };
static const Algo<tlx::SHA512> A_SHA512 = { "sha512", 128, tlx::sha512_hex, tlx::sha512_hex, tlx::sha512_hex_uc, tlx::sha512_hex_uc };

static void all_algos(const MsgId& id, const std::string& m, Rng& rng, size_t upto) {
    check_message(A_MD5, id, m, rng, upto);
    check_message(A_SHA1, id, m, rng, upto);
    check_message(A_SHA256, id, m, rng, upto);
    check_message(A_SHA512, id, m, rng, upto);
}

static void mode_len(Rng& rng, uint64_t L) {
    size_t upto = (size_t)verif::param_int("splits_upto", 300);
    for (int kind = 0; kind < 3; ++kind) {
        MsgId id{ kind, kind == 0 ? rng.next() >> 8 : 0, (size_t)L };
        all_algos(id, gen_message(id.kind, id.seed, id.len), rng, upto);
    }
    verif::cover("len=" + std::to_string(L));
    verif::count("lengths_covered");
    if (verif::want_sample(2))
        verif::sample("length " + std::to_string(L) + ": random/all-00/all-ff content x 4 digests x all two-call splits" +
                      (L <= upto ? "" : " (sampled)") + ", 1-byte calls, block-1/block/block+1 chunks, random partitions");
}

static void mode_long(Rng& rng, uint64_t) {
    size_t maxlen = (size_t)verif::param_int("maxlen", 2000000);
    size_t L = 100000 + rng.below(maxlen - 100000);
    if (rng.chance(1, 4)) L = (L / 128) * 128 + rng.pick(std::vector<size_t>{ 0, 1, 55, 56, 63, 64, 111, 112, 119, 127 });
    MsgId id{ 3, rng.next() >> 8, L };
    all_algos(id, gen_message(3, id.seed, L), rng, 0);
    verif::cover("long:len-class=" + std::to_string(L / 500000));
    verif::count("long_messages");
}

// One process() call carrying 2^29 bytes or more (2^32 bits: the bit counter must not be kept in 32
// bits anywhere) against the same message fed in 1 MiB + 1 byte calls, and against python hashlib.
// The message is all-zero and lives in untouched anonymous pages, so it costs no memory.
template <typename H>
static void huge_one(const Algo<H>& A, const char* msg, size_t L, Rng& rng) {
    H one;
    one.process(msg, (std::uint32_t)L);
    std::string raw = one.digest();
    H chunked;
    size_t cs = (1u << 20) + 1 + rng.below(4096), fed = 0;
    while (fed < L) { size_t n = std::min(cs, L - fed); chunked.process(msg + fed, (std::uint32_t)n); fed += n; }
    ++g_chunkings;
    if (chunked.digest() != raw)
        verif::fail(std::string("C14:") + A.name + ":huge-single-call", std::string(A.name) + ": one process() call of " + std::to_string(L) +
                    " zero bytes gives " + hexlc(raw) + ", calls of " + std::to_string(cs) + " bytes give " + hexlc(chunked.digest()));
    H two;                              // a short call first, so that the big one starts with a partly filled block
    size_t a = 1 + rng.below(A.block - 1);
    two.process(msg, (std::uint32_t)a);
    two.process(msg + a, (std::uint32_t)(L - a));
    ++g_chunkings;
    if (two.digest() != raw)
        verif::fail(std::string("C14:") + A.name + ":huge-after-short-call", std::string(A.name) + ": " + std::to_string(a) + " bytes, then " +
                    std::to_string(L - a) + " zero bytes in one call differs from the single call");
    if (g_log) { fprintf(g_log, "%s %d %llu %zu %s\n", A.name, 1, 0ull, L, hexlc(raw).c_str()); ++g_records; }
    verif::count(std::string("huge_single_calls:") + A.name);
}

// An independent SipHash-2-4 (written from the paper, byte-wise little-endian loads, 64-bit length), used
// where the python oracle would take hours: messages of 4 GiB and more. It is itself compared with the
// python oracle's value on every short message of mode=sip (the logged value is tlx's, and this one must
// equal it there), and anchored on the paper's test vector below.
static uint64_t ref_siphash24(const uint8_t key[16], const uint8_t* m, uint64_t len) {
    auto ld = [](const uint8_t* p) { uint64_t v = 0; for (int i = 7; i >= 0; --i) v = (v << 8) | p[i]; return v; };
    auto rotl = [](uint64_t x, int b) { return (x << b) | (x >> (64 - b)); };
    uint64_t k0 = ld(key), k1 = ld(key + 8);
    uint64_t v0 = k0 ^ 0x736f6d6570736575ull, v1 = k1 ^ 0x646f72616e646f6dull, v2 = k0 ^ 0x6c7967656e657261ull, v3 = k1 ^ 0x7465646279746573ull;
    auto round = [&]() {
        v0 += v1; v1 = rotl(v1, 13); v1 ^= v0; v0 = rotl(v0, 32);
        v2 += v3; v3 = rotl(v3, 16); v3 ^= v2;
        v0 += v3; v3 = rotl(v3, 21); v3 ^= v0;
        v2 += v1; v1 = rotl(v1, 17); v1 ^= v2; v2 = rotl(v2, 32);
    };
    uint64_t full = len / 8;
    for (uint64_t i = 0; i < full; ++i) { uint64_t w = ld(m + 8 * i); v3 ^= w; round(); round(); v0 ^= w; }
    uint64_t last = (len & 0xff) << 56;
    for (uint64_t i = 0; i < len % 8; ++i) last |= (uint64_t)m[8 * full + i] << (8 * i);
    v3 ^= last; round(); round(); v0 ^= last;
    v2 ^= 0xff; round(); round(); round(); round();
    return v0 ^ v1 ^ v2 ^ v3;
}

static void huge_sip(Rng& rng, uint64_t index) {
    {   // anchor: appendix A of the SipHash paper
        uint8_t key[16], m[15];
        for (int i = 0; i < 16; ++i) key[i] = (uint8_t)i;
        for (int i = 0; i < 15; ++i) m[i] = (uint8_t)i;
        if (ref_siphash24(key, m, 15) != 0xa129ca6149be45e5ull) { verif::fail("C14:harness:reference-siphash-broken", "the harness's reference SipHash-2-4 fails the paper's test vector"); return; }
    }
    const size_t G4 = (size_t)1 << 32;
    const size_t L = index % 2 == 0 ? G4 + 77 : G4 - 3;   // just above and just below 2^32 bytes
    void* mem = mmap(nullptr, L, PROT_READ, MAP_PRIVATE | MAP_ANONYMOUS | MAP_NORESERVE, -1, 0);
    if (mem == MAP_FAILED) { verif::count("huge_mmap_failed"); return; }
    const uint8_t* msg = static_cast<const uint8_t*>(mem);
    uint8_t key[16];
    for (int i = 0; i < 16; ++i) key[i] = (uint8_t)rng.next();
    verif::context() = "siphash";
    g_trace.assign(1, "siphash of " + std::to_string(L) + " zero bytes");
    uint64_t want = ref_siphash24(key, msg, L);
    uint64_t a = tlx::siphash_plain(key, msg, L), b = tlx::siphash(key, msg, L);
#if defined(__SSE2__)
    uint64_t c = tlx::siphash_sse2(key, msg, L);
#else
    uint64_t c = want;
#endif
    munmap(mem, L);
    if (a != want || b != want || c != want)
        verif::fail("C14:siphash:huge-message", "message of " + std::to_string(L) + " zero bytes, key " + verif::hex_bytes(key, 16) + ": SipHash-2-4 is " +
                    std::to_string(want) + ", siphash_plain " + std::to_string(a) + ", siphash " + std::to_string(b) + ", siphash_sse2 " + std::to_string(c));
    verif::count("siphash_huge_messages");
    verif::cover(std::string("huge:siphash:len=2^32") + (L > G4 ? "+77" : "-3"));
    verif::sample("huge: siphash (plain, sse2, dispatcher) of " + std::to_string(L) + " zero bytes vs an independent SipHash-2-4");
}

static void mode_huge(Rng& rng, uint64_t index) {
    static const size_t P = (size_t)1 << 29;
    static const std::vector<size_t> LS = { P + 63, P, P + 64 + 1, P + P / 2 + 5, 2 * P + 3, 4 * P - 1 };
    size_t L = LS[index % LS.size()];
    void* mem = mmap(nullptr, L, PROT_READ, MAP_PRIVATE | MAP_ANONYMOUS | MAP_NORESERVE, -1, 0);
    if (mem == MAP_FAILED) { verif::count("huge_mmap_failed"); return; }
    const char* msg = static_cast<const char*>(mem);
    verif::context() = "huge-single-call";
    g_trace.assign(1, "one process() call of " + std::to_string(L) + " bytes");
    huge_one(A_MD5, msg, L, rng);
    huge_one(A_SHA1, msg, L, rng);
    huge_one(A_SHA256, msg, L, rng);
    huge_one(A_SHA512, msg, L, rng);
    munmap(mem, L);
    verif::cover("huge:len=2^29*" + std::to_string(L / P) + "+" + std::to_string(L % P));
    verif::count("huge_messages");
    verif::sample("huge: one process() call of " + std::to_string(L) + " zero bytes vs ~1 MiB calls vs short call + rest, 4 digests");
}

/******************************************************************************/

static void mode_sip(Rng& rng, uint64_t index) {
    uint8_t key0[16];
    for (int i = 0; i < 16; ++i) key0[i] = (uint8_t)rng.next();
    if (index == 0) memset(key0, 0, 16);
    if (index == 1) memset(key0, 0xff, 16);
    if (index == 2) for (int i = 0; i < 16; ++i) key0[i] = (uint8_t)i;
    alignas(64) static uint8_t buf[16 + 160];
    // the key is a plain byte pointer: it is handed over at every offset 0..15 from a 64-byte boundary
    alignas(64) static uint8_t keybuf[16 + 16];
    for (size_t len = 0; len <= 129; ++len) {
        size_t koff = (len + index) % 16;
        memset(keybuf, 0x5A, sizeof(keybuf));
        memcpy(keybuf + koff, key0, 16);
        const uint8_t* key = keybuf + koff;
        verif::context() = "siphash";
        g_trace.assign(1, "siphash with key at 64-byte boundary + " + std::to_string(koff) + ", message length " + std::to_string(len));
        int kind = (int)rng.pick(std::vector<int>{ 0, 0, 4, 4, 2, 1 });
        uint64_t mseed = rng.next() >> 8;
        std::string m = gen_message(kind, mseed, len);
        int lkind = kind;
        uint64_t first = 0;
        for (size_t off = 0; off < 16; ++off) {
            memset(buf, 0xA5, sizeof(buf));
            memcpy(buf + off, m.data(), len);
            uint64_t a = tlx::siphash_plain(key, buf + off, len);
            uint64_t b = tlx::siphash(key, buf + off, len);
#if defined(__SSE2__)
            uint64_t c = tlx::siphash_sse2(key, buf + off, len);
#else
            uint64_t c = a;
#endif
            if (off == 0) first = a;
            std::string where = "key=" + verif::hex_bytes(key, 16) + " len=" + std::to_string(len) +
                                " offset=" + std::to_string(off) + " msg=" + verif::hex_bytes(m);
            if (a != b || a != c)
                verif::fail("C14:siphash:plain-vs-sse2", where + " plain=" + std::to_string(a) +
                            " siphash()=" + std::to_string(b) + " sse2=" + std::to_string(c));
            if (a != first) verif::fail("C14:siphash:alignment", where);
            if (off == 0 && ref_siphash24(key, buf, len) != a) verif::fail("C14:siphash:value", where + " harness reference SipHash-2-4 = " + std::to_string(ref_siphash24(key, buf, len)));
            verif::count("siphash_evaluations", 3);
        }
        {   // the same message in a block without slack behind it (exact size under ASan)
            verif::Slice ex(m.data(), len);
            const uint8_t* ep = reinterpret_cast<const uint8_t*>(ex.data());
            bool ok = tlx::siphash_plain(key, ep, len) == first && tlx::siphash(key, ep, len) == first;
#if defined(__SSE2__)
            ok = ok && tlx::siphash_sse2(key, ep, len) == first;
#endif
            if (!ok) verif::fail("C14:siphash:exact-buffer", "len=" + std::to_string(len));
        }
        if (index == 2) {
            // the default-key convenience overloads use key 00..0f
            if (tlx::siphash(reinterpret_cast<const uint8_t*>(m.data()), len) != first ||
                tlx::siphash(m.data(), len) != first || tlx::siphash(tlx::string_view(m.data(), len)) != first)
                verif::fail("C14:siphash:default-key-overloads", "len=" + std::to_string(len));
        }
        if (g_log) {
            fprintf(g_log, "siphash %d %llu %zu %s %016llx\n", lkind, (unsigned long long)mseed, len,
                    verif::hex_bytes(key, 16).c_str(), (unsigned long long)first);
            ++g_records;
        }
    }
    verif::cover(std::string("sip:key=") + (index < 3 ? "special" + std::to_string(index) : "random"));
    verif::count("siphash_keys");
    if (verif::want_sample(1))
        verif::sample("siphash key " + verif::hex_bytes(key0, 16) + " (at address offsets 0..15): lengths 0..129 x offsets 0..15, plain vs sse2 vs siphash()");
}

static void run_case(Rng& rng, uint64_t index) {
    std::string mode = verif::param("mode", "len");
    uint64_t c0 = g_chunkings;
    if (mode == "len") mode_len(rng, index);
    else if (mode == "long") mode_long(rng, index);
    else if (mode == "huge") mode_huge(rng, index);
    else if (mode == "hugesip") huge_sip(rng, index);
    else mode_sip(rng, index);
    verif::count("chunkings_compared", g_chunkings - c0);
}

static void init() {
    verif::property_id() = "C14";
    verif::live_trace() = &g_trace;
    verif::death_extra() = verif::print_live_trace;
    if (!verif::st().out.empty()) {
        g_log = fopen((verif::st().out + ".log").c_str(), "w");
        if (g_log) setvbuf(g_log, nullptr, _IOLBF, 0);
    }
}
static void finish() {
    if (g_log) { fclose(g_log); g_log = nullptr; }
    verif::count("records_logged", g_records);
}

int main(int argc, char** argv) { return verif::main_loop(argc, argv, run_case, init, finish); }
