// C20: integer math helpers vs. their mathematical definition (computed with
// loops / 128-bit arithmetic) and Aggregate combination vs. single feed.
//
// modes (mode=...):
//   small   index 0: every 8-bit value, index 1: every 16-bit value of the
//           *_template / generic8/16 functions; index 2: all 8-bit pairs of the
//           two-argument helpers (exhaustive)
//   w32     index i in [0,4096): 32-bit values i*2^20 + j*stride (+ seeded phase);
//           stride=1 is the exhaustive sweep of all 2^32 values
//   w64     structured (index 0: all 1- and 2-bit patterns and neighbours of powers
//           of two, extremes) and random 64-bit values
//   pairs   div_ceil / round_up / abs_diff on pairs (small dense + near-max)
//   rot     rol/ror/bswap
//   popbuf  popcount(buffer,size) at every alignment
//   agg     Aggregate + / += vs single feed
#include <verif.hpp>

#include <cmath>
#include <limits>
#include <type_traits>
#include <typeinfo>

#include <tlx/math/abs_diff.hpp>
#include <tlx/math/aggregate.hpp>
#include <tlx/math/bswap.hpp>
#include <tlx/math/clz.hpp>
#include <tlx/math/ctz.hpp>
#include <tlx/math/div_ceil.hpp>
#include <tlx/math/ffs.hpp>
#include <tlx/math/integer_log2.hpp>
#include <tlx/math/is_power_of_two.hpp>
#include <tlx/math/popcount.hpp>
#include <tlx/math/rol.hpp>
#include <tlx/math/ror.hpp>
#include <tlx/math/round_to_power_of_two.hpp>
#include <tlx/math/round_up.hpp>
#include <tlx/math/sgn.hpp>

using verif::Rng;
typedef unsigned __int128 u128;
typedef __int128 i128;

template <typename T> const char* tname();
#define TN(T) template <> const char* tname<T>() { return #T; }
TN(int) TN(unsigned) TN(long) TN(unsigned long) TN(long long) TN(unsigned long long)
TN(int8_t) TN(uint8_t) TN(int16_t) TN(uint16_t)

static std::string s128(i128 v) {
    if (v == 0) return "0";
    bool neg = v < 0;
    u128 u = neg ? (u128)(-(v + 1)) + 1 : (u128)v;
    std::string s;
    while (u) { s += char('0' + (int)(u % 10)); u /= 10; }
    if (neg) s += '-';
    std::reverse(s.begin(), s.end());
    return s;
}

template <typename T>
static void bad(const char* fn, i128 x, i128 got, i128 want, const char* cls = "") {
    std::string key = std::string("C20:") + fn + "<" + tname<T>() + ">" + cls;
    verif::fail(key, std::string(fn) + "<" + tname<T>() + ">(" + s128(x) + ") = " +
                     s128(got) + ", definition gives " + s128(want));
}
template <typename T>
static void bad2(const char* fn, i128 a, i128 b, i128 got, i128 want, const char* cls = "") {
    std::string key = std::string("C20:") + fn + "<" + tname<T>() + ">" + cls;
    verif::fail(key, std::string(fn) + "<" + tname<T>() + ">(" + s128(a) + ", " + s128(b) +
                     ") = " + s128(got) + ", definition gives " + s128(want));
}

/******************************************************************************/
// reference definitions over the W-bit two's-complement pattern `u`

static unsigned ref_clz(u128 u, unsigned W) {
    unsigned r = 0;
    for (int b = (int)W - 1; b >= 0; --b) { if ((u >> b) & 1) break; ++r; }
    return r;
}
static unsigned ref_ctz(u128 u, unsigned W) {
    unsigned r = 0;
    for (unsigned b = 0; b < W; ++b) { if ((u >> b) & 1) break; ++r; }
    return r;
}
static unsigned ref_pop(u128 u, unsigned W) {
    unsigned r = 0;
    for (unsigned b = 0; b < W; ++b) r += (unsigned)((u >> b) & 1);
    return r;
}
static unsigned ref_log2_floor(u128 v) {  // v > 0
    unsigned r = 0;
    while (v > 1) { v >>= 1; ++r; }
    return r;
}
static unsigned ref_log2_ceil(u128 v) {  // v > 0
    unsigned f = ref_log2_floor(v);
    return ((u128)1 << f) == v ? f : f + 1;
}
static u128 ref_round_up_pow2(u128 v) {  // v >= 1
    u128 p = 1;
    while (p < v) p <<= 1;
    return p;
}
static u128 ref_round_down_pow2(u128 v) {  // v >= 1
    u128 p = 1;
    while ((p << 1) <= v) p <<= 1;
    return p;
}

template <typename T>
static u128 pattern(T x) {
    typedef typename std::make_unsigned<T>::type U;
    return (u128)(U)x;
}

static uint64_t g_vals = 0;

/******************************************************************************/
// one value of an overloaded (int / long / long long and unsigned) type

template <typename T>
static void check_value(T x) {
    const unsigned W = 8 * sizeof(T);
    const u128 u = pattern(x);
    const i128 xv = (i128)x;
    const i128 TMAX = (i128)std::numeric_limits<T>::max();
    ++g_vals;

    unsigned r;
    if ((r = tlx::clz(x)) != ref_clz(u, W)) bad<T>("clz", xv, r, ref_clz(u, W));
    if ((r = tlx::clz_template(x)) != ref_clz(u, W)) bad<T>("clz_template", xv, r, ref_clz(u, W));
    if ((r = tlx::ctz(x)) != ref_ctz(u, W)) bad<T>("ctz", xv, r, ref_ctz(u, W));
    if ((r = tlx::ctz_template(x)) != ref_ctz(u, W)) bad<T>("ctz_template", xv, r, ref_ctz(u, W));
    unsigned ffs = u == 0 ? 0 : ref_ctz(u, W) + 1;
    if ((r = tlx::ffs(x)) != ffs) bad<T>("ffs", xv, r, ffs);
    if ((r = tlx::ffs_template(x)) != ffs) bad<T>("ffs_template", xv, r, ffs);
    unsigned pc = ref_pop(u, W);
    if ((r = tlx::popcount(x)) != pc) bad<T>("popcount", xv, r, pc);
    if (W == 32) {
        if ((r = tlx::popcount_generic32((uint32_t)u)) != pc) bad<T>("popcount_generic32", xv, r, pc);
    }
    else {
        if ((r = tlx::popcount_generic64((uint64_t)u)) != pc) bad<T>("popcount_generic64", xv, r, pc);
    }
    if (xv >= 0) {
        unsigned lf = xv == 0 ? 0 : ref_log2_floor((u128)xv);
        if ((r = tlx::integer_log2_floor(x)) != lf) bad<T>("integer_log2_floor", xv, r, lf);
        if ((r = tlx::integer_log2_floor_template(x)) != lf)
            bad<T>("integer_log2_floor_template", xv, r, lf);
        unsigned lc = xv <= 1 ? 0 : ref_log2_ceil((u128)xv);
        if ((r = tlx::integer_log2_ceil(x)) != lc) bad<T>("integer_log2_ceil", xv, r, lc);
    }
    bool p2 = xv > 0 && pc == 1;
    if (tlx::is_power_of_two(x) != p2) bad<T>("is_power_of_two", xv, !p2, p2);
    if (tlx::is_power_of_two_template(x) != p2) bad<T>("is_power_of_two_template", xv, !p2, p2);
    if (xv >= 1) {
        u128 up = ref_round_up_pow2((u128)xv);
        if ((i128)up <= TMAX) {
            T g = tlx::round_up_to_power_of_two(x);
            if ((i128)g != (i128)up) bad<T>("round_up_to_power_of_two", xv, g, up);
            g = tlx::round_up_to_power_of_two_template(x);
            if ((i128)g != (i128)up) bad<T>("round_up_to_power_of_two_template", xv, g, up);
        }
        u128 dn = ref_round_down_pow2((u128)xv);
        T g = tlx::round_down_to_power_of_two(x);
        if ((i128)g != (i128)dn) bad<T>("round_down_to_power_of_two", xv, g, dn);
    }
    int sg = xv > 0 ? 1 : xv < 0 ? -1 : 0;
    if (tlx::sgn(x) != sg) bad<T>("sgn", xv, tlx::sgn(x), sg);
}

// 8/16-bit: only the templates exist
template <typename T>
static void check_small(T x) {
    const unsigned W = 8 * sizeof(T);
    const u128 u = pattern(x);
    const i128 xv = (i128)x;
    const i128 TMAX = (i128)std::numeric_limits<T>::max();
    ++g_vals;
    unsigned r;
    if ((r = tlx::clz_template(x)) != ref_clz(u, W)) bad<T>("clz_template", xv, r, ref_clz(u, W));
    if ((r = tlx::ctz_template(x)) != ref_ctz(u, W)) bad<T>("ctz_template", xv, r, ref_ctz(u, W));
    unsigned ffs = u == 0 ? 0 : ref_ctz(u, W) + 1;
    if ((r = tlx::ffs_template(x)) != ffs) bad<T>("ffs_template", xv, r, ffs);
    unsigned pc = ref_pop(u, W);
    if (W == 8) {
        if ((r = tlx::popcount_generic8((uint8_t)u)) != pc) bad<T>("popcount_generic8", xv, r, pc);
    }
    else {
        if ((r = tlx::popcount_generic16((uint16_t)u)) != pc) bad<T>("popcount_generic16", xv, r, pc);
        uint16_t sw = (uint16_t)(((u & 0xff) << 8) | ((u >> 8) & 0xff));
        if (tlx::bswap16_generic((uint16_t)u) != sw)
            bad<T>("bswap16_generic", xv, tlx::bswap16_generic((uint16_t)u), sw);
        if (tlx::bswap16((uint16_t)u) != sw) bad<T>("bswap16", xv, tlx::bswap16((uint16_t)u), sw);
    }
    if (xv >= 0) {
        unsigned lf = xv == 0 ? 0 : ref_log2_floor((u128)xv);
        if ((r = tlx::integer_log2_floor_template(x)) != lf)
            bad<T>("integer_log2_floor_template", xv, r, lf);
    }
    bool p2 = xv > 0 && pc == 1;
    if (tlx::is_power_of_two_template(x) != p2) bad<T>("is_power_of_two_template", xv, !p2, p2);
    if (xv >= 1) {
        u128 up = ref_round_up_pow2((u128)xv);
        if ((i128)up <= TMAX) {
            T g = tlx::round_up_to_power_of_two_template(x);
            if ((i128)g != (i128)up) bad<T>("round_up_to_power_of_two_template", xv, g, up);
        }
    }
    int sg = xv > 0 ? 1 : xv < 0 ? -1 : 0;
    if (tlx::sgn(x) != sg) bad<T>("sgn", xv, tlx::sgn(x), sg);
}

/******************************************************************************/
// two-argument helpers

static uint64_t g_pairs = 0;

template <typename T>
static void check_absdiff(T a, T b) {
    ++g_pairs;
    i128 d = (i128)a - (i128)b;
    if (d < 0) d = -d;
    if (d > (i128)std::numeric_limits<T>::max()) return;  // not representable
    T g = tlx::abs_diff(a, b);
    if ((i128)g != d) bad2<T>("abs_diff", a, b, g, d);
}

//! n, k positive (documented domain); checked only if the result is representable
template <typename T>
static void check_divceil(T n, T k) {
    typedef decltype(n + k) R;
    ++g_pairs;
    if (n <= 0 || k <= 0) return;
    i128 q = ((i128)n + (i128)k - 1) / (i128)k;
    const i128 RMAX = (i128)std::numeric_limits<R>::max();
    bool near = (i128)n + (i128)k - 1 > RMAX;
    if (q <= RMAX) {
        R g = tlx::div_ceil(n, k);
        if ((i128)g != q) bad2<T>("div_ceil", n, k, g, q, near ? ":near-max" : "");
    }
    if (q * (i128)k <= RMAX) {
        R g = tlx::round_up(n, k);
        if ((i128)g != q * (i128)k) bad2<T>("round_up", n, k, g, q * (i128)k, near ? ":near-max" : "");
    }
}

/******************************************************************************/

template <typename T>
static T from_bits(uint64_t b) {
    typedef typename std::make_unsigned<T>::type U;
    return (T)(U)b;
}

static void all_types64(uint64_t b) {
    check_value<long>(from_bits<long>(b));
    check_value<unsigned long>(from_bits<unsigned long>(b));
    check_value<long long>(from_bits<long long>(b));
    check_value<unsigned long long>(from_bits<unsigned long long>(b));
}
static void all_types32(uint32_t b) {
    check_value<int>(from_bits<int>(b));
    check_value<unsigned>(from_bits<unsigned>(b));
}

static void mode_small(uint64_t index) {
    if (index == 0) {
        for (unsigned v = 0; v < 256; ++v) {
            check_small<uint8_t>((uint8_t)v);
            check_small<int8_t>((int8_t)(uint8_t)v);
        }
        verif::cover("exhaustive:8-bit:templates");
    }
    else if (index == 1) {
        for (unsigned v = 0; v < 65536; ++v) {
            check_small<uint16_t>((uint16_t)v);
            check_small<int16_t>((int16_t)(uint16_t)v);
        }
        verif::cover("exhaustive:16-bit:templates");
    }
    else if (index == 2) {
        for (unsigned a = 0; a < 256; ++a)
            for (unsigned b = 0; b < 256; ++b) {
                check_absdiff<uint8_t>((uint8_t)a, (uint8_t)b);
                check_absdiff<int8_t>((int8_t)(uint8_t)a, (int8_t)(uint8_t)b);
                check_divceil<uint8_t>((uint8_t)a, (uint8_t)b);
                check_divceil<int8_t>((int8_t)(uint8_t)a, (int8_t)(uint8_t)b);
            }
        verif::cover("exhaustive:8-bit-pairs:abs_diff,div_ceil,round_up");
    }
    else {
        // 16-bit pairs: a dense row/column band per index
        unsigned a0 = (unsigned)((index - 3) * 16) & 0xffff;
        for (unsigned a = a0; a < a0 + 16; ++a)
            for (unsigned b = 0; b < 65536; ++b) {
                check_absdiff<uint16_t>((uint16_t)a, (uint16_t)b);
                check_absdiff<int16_t>((int16_t)(uint16_t)a, (int16_t)(uint16_t)b);
                check_divceil<uint16_t>((uint16_t)b, (uint16_t)a);
                check_divceil<int16_t>((int16_t)(uint16_t)b, (int16_t)(uint16_t)a);
            }
        verif::cover("16-bit-pairs:band");
    }
}

static void mode_w32(Rng& rng, uint64_t index) {
    uint64_t stride = (uint64_t)verif::param_int("stride", 256);
    uint64_t base = index << 20;
    uint64_t phase = stride > 1 ? rng.below(stride) : 0;
    for (uint64_t j = phase; j < (1u << 20); j += stride) all_types32((uint32_t)(base + j));
    // always include the chunk edges
    all_types32((uint32_t)base);
    all_types32((uint32_t)(base + (1u << 20) - 1));
    if (stride == 1) verif::cover("exhaustive:32-bit:chunk");
    verif::cover(std::string("w32:top-bits=") + std::to_string(index >> 8));
}

static void mode_w64(Rng& rng, uint64_t index) {
    if (index == 0) {
        for (int i = 0; i < 64; ++i) {
            uint64_t p = 1ull << i;
            for (int d = -2; d <= 2; ++d) { all_types64(p + d); all_types64(~(p + d)); }
            for (int j = 0; j < i; ++j) {
                uint64_t q = p | (1ull << j);
                all_types64(q); all_types64(q - 1); all_types64(q + 1); all_types64(~q);
            }
        }
        for (int d = -3; d <= 3; ++d) {
            all_types64(0ull + d); all_types64(0x8000000000000000ull + d);
            all_types64(0x7fffffffffffffffull + d);
            all_types64(0x00000000ffffffffull + d); all_types64(0x0000000080000000ull + d);
        }
        for (int i = 0; i < 32; ++i) {
            uint32_t p = 1u << i;
            for (int d = -2; d <= 2; ++d) { all_types32(p + d); all_types32(~(p + d)); }
            for (int j = 0; j < i; ++j) { all_types32(p | (1u << j)); all_types32(~(p | (1u << j))); }
        }
        verif::cover("w64:structured:one-bit,two-bit,pow2-neighbours,extremes");
        return;
    }
    for (int n = 0; n < 4096; ++n) {
        uint64_t v = rng.next();
        switch (rng.below(6)) {
        case 0: break;                                   // uniform
        case 1: v >>= rng.below(64); break;              // uniform magnitude
        case 2: v |= 0x8000000000000000ull; break;       // upper half
        case 3: v = (1ull << rng.below(64)) + rng.range(-3, 3); break;
        case 4: v = ~0ull - rng.below(1 << 16); break;   // near max
        case 5: v = 0x7fffffffffffffffull - rng.below(1 << 16); break;
        }
        all_types64(v);
        all_types32((uint32_t)(v >> rng.below(33)));
    }
    verif::cover("w64:random-batch");
}

template <typename T>
static void pair_batch(Rng& rng) {
    const i128 TMAX = (i128)std::numeric_limits<T>::max();
    for (int n = 0; n < 2000; ++n) {
        T a, b;
        switch (rng.below(5)) {
        case 0:  // near max n, small k
            a = (T)(TMAX - (i128)rng.below(1000)); b = (T)rng.range(1, 300); break;
        case 1:  // near max both
            a = (T)(TMAX - (i128)rng.below(1000)); b = (T)(TMAX - (i128)rng.below(1000)); break;
        case 2:  // upper half n
            a = (T)(TMAX / 2 + (i128)(rng.next() % (uint64_t)(TMAX / 2))); b = (T)rng.range(1, 1 << 20); break;
        case 3: {  // random magnitudes
            a = (T)((rng.next() >> rng.below(64)) & (uint64_t)TMAX);
            b = (T)((rng.next() >> rng.below(64)) & (uint64_t)TMAX); break;
        }
        default: a = (T)rng.range(1, 100000); b = (T)rng.range(1, 100000); break;
        }
        check_divceil<T>(a, b);
        check_absdiff<T>(a, b);
        check_absdiff<T>(b, a);
        if (std::is_signed<T>::value) {
            check_absdiff<T>((T)(-a), b);
            check_absdiff<T>(a, (T)(-b));
            check_absdiff<T>((T)(-a), (T)(-b));
            check_absdiff<T>(std::numeric_limits<T>::min(), (T)(-b));
        }
    }
}

//! n and k of different integer types (both positive); result type decltype(n + k)
template <typename N, typename K>
static void check_divceil_mixed(N n, K k, const char* tn) {
    typedef decltype(n + k) R;
    ++g_pairs;
    if (n <= 0 || k <= 0) return;
    i128 q = ((i128)n + (i128)k - 1) / (i128)k;
    const i128 RMAX = (i128)std::numeric_limits<R>::max();
    if (q <= RMAX) {
        R g = tlx::div_ceil(n, k);
        if ((i128)g != q)
            verif::fail(std::string("C20:div_ceil<") + tn + ">", "div_ceil(" + std::to_string(n) + ", " + std::to_string(k) + ") = " + std::to_string(g) + ", definition gives " + std::to_string((long long)q));
    }
    if (q * (i128)k <= RMAX) {
        R g = tlx::round_up(n, k);
        if ((i128)g != q * (i128)k)
            verif::fail(std::string("C20:round_up<") + tn + ">", "round_up(" + std::to_string(n) + ", " + std::to_string(k) + ") = " + std::to_string(g) + ", definition gives " + std::to_string((unsigned long long)(q * (i128)k)));
    }
}

static void mixed_pair_batch(Rng& rng) {
    static const uint64_t KS[] = { 1, 2, 3, 4, 7, 8, 15, 16, 255, 256, 1000, 65535, 65536, 1u << 20, 0x7FFFFFFFull, 0x80000000ull, 0xFFFFFFFFull };
    for (int r = 0; r < 4000; ++r) {
        uint64_t n;
        switch (rng.below(5)) {
        case 0: n = (1ull << (1 + rng.below(62))) + rng.below(5) - 2; break;     // around powers of two (incl. 2^32)
        case 1: n = 0xFFFFFFFFull + rng.below(9) - 4; break;
        case 2: n = rng.next() >> rng.below(40); break;
        case 3: n = rng.below(100000); break;
        default: n = (rng.next() % 4) + 0x7FFFFFFFFFFFFFF0ull; break;
        }
        uint64_t k = rng.coin() ? KS[rng.below(sizeof(KS) / sizeof(KS[0]))] : (rng.next() >> (32 + rng.below(30)));
        if (!k) k = 1;
        check_divceil_mixed<uint64_t, uint32_t>(n, (uint32_t)k, "u64,u32");
        check_divceil_mixed<int64_t, uint32_t>((int64_t)(n >> 1), (uint32_t)k, "i64,u32");
        check_divceil_mixed<unsigned long long, unsigned>(n, (unsigned)k, "ull,unsigned");
        check_divceil_mixed<uint64_t, uint16_t>(n, (uint16_t)k, "u64,u16");
        check_divceil_mixed<uint64_t, uint8_t>(n, (uint8_t)k, "u64,u8");
        check_divceil_mixed<uint32_t, uint64_t>((uint32_t)n, k, "u32,u64");
        check_divceil_mixed<int64_t, int>((int64_t)(n >> 1), (int)(k & 0x7FFFFFFF), "i64,int");
        check_divceil_mixed<uint64_t, int>(n, (int)(k & 0x7FFFFFFF), "u64,int");
        check_divceil_mixed<uint32_t, uint8_t>((uint32_t)n, (uint8_t)k, "u32,u8");
        check_divceil_mixed<int, long long>((int)(n & 0x7FFFFFFF), (long long)(k), "int,ll");
        check_divceil_mixed<size_t, unsigned>(n, (unsigned)k, "size_t,unsigned");
    }
    verif::count("mixed_type_pairs", 4000 * 11);
}

static void mode_pairs(Rng& rng, uint64_t index) {
    if (index == 0) {
        for (int n = 1; n <= 300; ++n)
            for (int k = 1; k <= 300; ++k) {
                check_divceil<int>(n, k); check_divceil<unsigned>(n, k);
                check_divceil<long>(n, k); check_divceil<unsigned long>(n, k);
                check_divceil<long long>(n, k); check_divceil<unsigned long long>(n, k);
                check_absdiff<int>(n, k); check_absdiff<unsigned>(n, k);
                check_absdiff<int>(-n, k); check_absdiff<long>(-n, -k);
                check_absdiff<unsigned long>(n, k);
            }
        verif::cover("pairs:dense-1..300");
        return;
    }
    pair_batch<int>(rng); pair_batch<unsigned>(rng);
    pair_batch<long>(rng); pair_batch<unsigned long>(rng);
    pair_batch<long long>(rng); pair_batch<unsigned long long>(rng);
    mixed_pair_batch(rng);
    verif::cover("pairs:random+near-max+mixed-types");
}

static uint32_t ref_rol32(uint32_t x, int i) {
    unsigned s = ((unsigned)i) & 31;
    return s ? (x << s) | (x >> (32 - s)) : x;
}
static uint64_t ref_rol64(uint64_t x, int i) {
    unsigned s = ((unsigned)i) & 63;
    return s ? (x << s) | (x >> (64 - s)) : x;
}

static void mode_rot(Rng& rng, uint64_t index) {
    for (int n = 0; n < 512; ++n) {
        uint64_t v = rng.next();
        if (index == 0 && n < 64) v = 1ull << n;
        if (index == 0 && n >= 64 && n < 128) v = ~(1ull << (n - 64));
        uint32_t w = (uint32_t)(v ^ (v >> 32));
        if (index == 0 && n < 32) w = 1u << n;
        for (int i = 0; i <= 128; ++i) {
            ++g_vals;
            uint32_t e32 = ref_rol32(w, i), f32 = ref_rol32(w, 32 - (i & 31));
            uint64_t e64 = ref_rol64(v, i), f64 = ref_rol64(v, 64 - (i & 63));
            if (tlx::rol32(w, i) != e32) bad2<unsigned>("rol32", w, i, tlx::rol32(w, i), e32);
            if (tlx::rol32_generic(w, i) != e32) bad2<unsigned>("rol32_generic", w, i, tlx::rol32_generic(w, i), e32);
            if (tlx::ror32(w, i) != f32) bad2<unsigned>("ror32", w, i, tlx::ror32(w, i), f32);
            if (tlx::ror32_generic(w, i) != f32) bad2<unsigned>("ror32_generic", w, i, tlx::ror32_generic(w, i), f32);
            if (tlx::rol64(v, i) != e64) bad2<unsigned long>("rol64", v, i, tlx::rol64(v, i), e64);
            if (tlx::rol64_generic(v, i) != e64) bad2<unsigned long>("rol64_generic", v, i, tlx::rol64_generic(v, i), e64);
            if (tlx::ror64(v, i) != f64) bad2<unsigned long>("ror64", v, i, tlx::ror64(v, i), f64);
            if (tlx::ror64_generic(v, i) != f64) bad2<unsigned long>("ror64_generic", v, i, tlx::ror64_generic(v, i), f64);
        }
        uint32_t s32 = 0; uint64_t s64 = 0;
        for (int b = 0; b < 4; ++b) s32 |= ((w >> (8 * b)) & 0xff) << (8 * (3 - b));
        for (int b = 0; b < 8; ++b) s64 |= ((v >> (8 * b)) & 0xff) << (8 * (7 - b));
        if (tlx::bswap32(w) != s32) bad<unsigned>("bswap32", w, tlx::bswap32(w), s32);
        if (tlx::bswap32_generic(w) != s32) bad<unsigned>("bswap32_generic", w, tlx::bswap32_generic(w), s32);
        if (tlx::bswap64(v) != s64) bad<unsigned long>("bswap64", v, tlx::bswap64(v), s64);
        if (tlx::bswap64_generic(v) != s64) bad<unsigned long>("bswap64_generic", v, tlx::bswap64_generic(v), s64);
    }
    verif::cover("rot:shifts-0..128");
}

static void mode_popbuf(Rng& rng, uint64_t) {
    alignas(16) unsigned char buf[128];
    for (auto& c : buf) c = (unsigned char)rng.next();
    if (rng.chance(1, 8)) memset(buf, 0xff, sizeof(buf));
    for (size_t off = 0; off < 8; ++off)
        for (size_t size = 0; size <= 48; ++size) {
            ++g_vals;
            size_t want = 0;
            for (size_t i = 0; i < size; ++i) want += ref_pop(buf[off + i], 8);
            size_t got = tlx::popcount(buf + off, size);
            if (got != want) {
                verif::fail("C20:popcount(buffer)",
                            "popcount(buf+" + std::to_string(off) + ", " + std::to_string(size) +
                            ") = " + std::to_string(got) + ", expected " + std::to_string(want));
            }
        }
    verif::cover("popbuf:sizes-0..48-x-align-0..7");
}

/******************************************************************************/
// Aggregate

template <typename T>
static void agg_case(Rng& rng, const char* tn) {
    size_t na = rng.chance(1, 5) ? 0 : rng.below(21), nb = rng.chance(1, 5) ? 0 : rng.below(21);
    double offset = 0, spread = 1;
    switch (rng.below(5)) {
    case 0: offset = 0; spread = 10; break;
    case 1: offset = 1e6; spread = 3; break;
    case 2: offset = -1e9; spread = 100; break;
    case 3: offset = 0; spread = 1e6; break;
    case 4: offset = 5e8; spread = 1; break;
    }
    // two groups with visibly different means (this is what makes a wrong
    // combination formula observable)
    double shift = rng.coin() ? spread * (double)rng.range(1, 50) : 0;
    std::vector<T> A(na), B(nb);
    auto gen = [&](double off) {
        double v = off + spread * ((double)rng.range(-1000, 1000) / 1000.0);
        return std::is_integral<T>::value ? (T)std::llround(v) : (T)v;
    };
    for (auto& v : A) v = gen(offset);
    for (auto& v : B) v = gen(offset + shift);
    tlx::Aggregate<T> a, b, all;
    for (auto v : A) { a.add(v); all.add(v); }
    for (auto v : B) { b.add(v); all.add(v); }
    tlx::Aggregate<T> plus = a + b;
    tlx::Aggregate<T> pe = a; pe += b;
    tlx::Aggregate<T> rplus = b + a;
    // long-double two-pass reference of the concatenation (scale for tolerances)
    long double sum = 0, maxabs = 0, lo = 0, hi = 0;
    size_t n = na + nb;
    bool first = true;
    for (auto* V : { &A, &B })
        for (auto v : *V) {
            sum += v; maxabs = std::max(maxabs, fabsl((long double)v));
            if (first) { lo = hi = v; first = false; }
            lo = std::min<long double>(lo, v); hi = std::max<long double>(hi, v);
        }
    long double mean = n ? sum / n : 0, ss = 0;
    for (auto* V : { &A, &B }) for (auto v : *V) ss += ((long double)v - mean) * ((long double)v - mean);
    long double range = hi - lo;
    auto dump = [&]() {
        std::ostringstream os;
        os.precision(17);
        os << "A=[" << verif::join_range(A.begin(), A.end()) << "] B=["
           << verif::join_range(B.begin(), B.end()) << "]";
        return os.str();
    };
    auto cmp = [&](const tlx::Aggregate<T>& c, const char* op) {
        std::string key = std::string("C20:Aggregate<") + tn + ">::" + op;
        if (c.count() != all.count())
            verif::fail(key + ":count", dump());
        if (c.min() != all.min()) verif::fail(key + ":min", dump());
        if (c.max() != all.max()) verif::fail(key + ":max", dump());
        double mtol = 1e-12 * (double)maxabs + 1e-300;
        if (!(std::fabs(c.mean() - all.mean()) <= mtol) ||
            !(std::fabs(c.mean() - (double)mean) <= mtol)) {
            std::ostringstream os; os.precision(17);
            os << dump() << " combined mean=" << c.mean() << " single-feed mean=" << all.mean()
               << " two-pass=" << (double)mean;
            verif::fail(key + ":mean", os.str());
        }
        // the synonyms report the same state
        if (c.average() != c.mean() || c.avg() != c.mean()) verif::fail(key + ":average", dump());
        if (c.count() && c.span() != (T)(c.max() - c.min())) verif::fail(key + ":span", dump());
        for (size_t ddof = 0; ddof <= 1; ++ddof) {
            double vv = c.variance(ddof);
            if (c.var(ddof) != vv || c.standard_deviation(ddof) != std::sqrt(vv) || c.stdev(ddof) != std::sqrt(vv)) {
                if (!(std::isnan(vv) && std::isnan(c.var(ddof)))) verif::fail(key + ":var/stdev", dump());
            }
        }
        for (size_t ddof = 0; ddof <= 1; ++ddof) {
            double v1 = c.variance(ddof), v2 = all.variance(ddof);
            double ref = n <= 1 ? 0.0 : (double)(ss / (long double)(n - ddof));
            double vtol = 1e-9 * std::fabs(ref) + 1e-11 * (double)(range * maxabs) + 1e-300;
            if (!(std::fabs(v1 - v2) <= vtol) || !(std::fabs(v1 - ref) <= vtol)) {
                std::ostringstream os; os.precision(17);
                os << dump() << " ddof=" << ddof << " combined variance=" << v1
                   << " single-feed variance=" << v2 << " two-pass=" << ref << " tol=" << vtol;
                verif::fail(key + ":variance", os.str());
            }
        }
    };
    cmp(plus, "operator+");
    cmp(rplus, "operator+");
    cmp(pe, "operator+=");
    if (!verif::case_failed()) {
        // The combined object is an Aggregate like any other: fed further values it must go on agreeing
        // with the one that was fed everything (this is where a wrong hidden state shows, e.g. a NaN in
        // the variance accumulator that variance() masks while count <= 1).
        size_t nc = rng.below(6);
        std::vector<T> C(nc);
        for (auto& v : C) v = gen(offset + (rng.coin() ? shift : 0));
        for (auto v : C) { plus.add(v); rplus.add(v); pe.add(v); all.add(v); A.push_back(v); }
        n += nc;
        sum = 0; maxabs = 0; first = true;
        for (auto* V : { &A, &B })
            for (auto v : *V) {
                sum += v; maxabs = std::max(maxabs, fabsl((long double)v));
                if (first) { lo = hi = v; first = false; }
                lo = std::min<long double>(lo, v); hi = std::max<long double>(hi, v);
            }
        mean = n ? sum / n : 0; ss = 0;
        for (auto* V : { &A, &B }) for (auto v : *V) ss += ((long double)v - mean) * ((long double)v - mean);
        range = hi - lo;
        cmp(plus, "operator+:then-add");
        cmp(rplus, "operator+:then-add");
        cmp(pe, "operator+=:then-add");
        if (nc) verif::count("aggregate_combinations_fed_further_values");
    }
    ++g_pairs;
    verif::cover(std::string("agg:") + tn + ":" + (na == 0 ? "A-empty" : na == 1 ? "A-one" : "A-many") +
                 ":" + (nb == 0 ? "B-empty" : nb == 1 ? "B-one" : "B-many") +
                 (shift != 0 ? ":means-differ" : ":means-close"));
    if (verif::want_sample(2)) verif::sample(std::string("Aggregate<") + tn + "> " + dump());
}

static void mode_agg(Rng& rng, uint64_t) {
    for (int i = 0; i < 200; ++i) {
        agg_case<int>(rng, "int");
        agg_case<double>(rng, "double");
        agg_case<long>(rng, "long");
    }
}

/******************************************************************************/

static void run_case(Rng& rng, uint64_t index) {
    std::string mode = verif::param("mode", "small");
    uint64_t v0 = g_vals, p0 = g_pairs;
    if (mode == "small") mode_small(index);
    else if (mode == "w32") mode_w32(rng, index);
    else if (mode == "w64") mode_w64(rng, index);
    else if (mode == "pairs") mode_pairs(rng, index);
    else if (mode == "rot") mode_rot(rng, index);
    else if (mode == "popbuf") mode_popbuf(rng, index);
    else if (mode == "agg") mode_agg(rng, index);
    else { fprintf(stderr, "unknown mode\n"); exit(2); }
    verif::count("values_checked:" + mode, g_vals - v0);
    verif::count("pairs_checked:" + mode, g_pairs - p0);
    if (verif::want_sample(3))
        verif::sample("mode=" + mode + " index=" + std::to_string(index) + " values=" +
                      std::to_string(g_vals - v0) + " pairs=" + std::to_string(g_pairs - p0));
}

VERIF_MAIN(run_case)
