// C08: multisequence_partition / multisequence_selection vs brute force.
// For a tuple of non-empty sorted sequences EVERY rank 0..N is checked:
//   partition: sum of left sizes == rank; max(left) <= min(right); the split equals the
//              unique split induced by the order (value, sequence index, position)
//   selection: returned value equivalent to merged[rank]; offset == rank - (first
//              position of an equivalent element)
// mode=exh : case index = block of the enumeration of all tuples with m<=3 sequences of
//            length 1..4 over values {0,1,2} (exhaustive), mode=exh4: m==4, length 1..3
// mode=huge: a run of more than 2^31 / 2^32 elements (see mode_huge)
// mode=rand: random tuples (m<=10, sometimes 17..64, lengths dense 1..9, around powers of two, very unequal)
#include <verif.hpp>

#include <functional>

#include <sys/mman.h>

#include <tlx/algorithm/multisequence_partition.hpp>
#include <tlx/algorithm/multisequence_selection.hpp>

using verif::Rng;

struct KV {   // ordered by key only: equivalence is coarser than equality
    int key;
    int tag;
};
VERIF_MISLEADING_ORDER(KV, key)
VERIF_MISLEADING_EQUALITY(KV, key)
struct KVLess { bool operator()(const KV& a, const KV& b) const { return a.key < b.key; } };
struct KVGreater { bool operator()(const KV& a, const KV& b) const { return a.key > b.key; } };

static uint64_t g_pairs = 0, g_tied = 0;

static std::string tuple_str(const std::vector<std::vector<int> >& t) {
    std::string s;
    for (auto& v : t) {
        s += "[";
        for (size_t i = 0; i < v.size() && i < 60; ++i) s += (i ? " " : "") + std::to_string(v[i]);
        if (v.size() > 60) s += " ...(" + std::to_string(v.size()) + ")";
        s += "] ";
    }
    return s;
}

template <typename RT> static const char* rank_type_name();
template <> const char* rank_type_name<long>() { return "long"; }
template <> const char* rank_type_name<size_t>() { return "size_t"; }
template <> const char* rank_type_name<int>() { return "int"; }
template <> const char* rank_type_name<unsigned>() { return "unsigned"; }
template <> const char* rank_type_name<long long>() { return "long long"; }
template <> const char* rank_type_name<unsigned long long>() { return "unsigned long long"; }
static uint64_t g_aliased = 0;

//! tuple given as keys; T is int or KV; order ascending or descending
//! RT is the caller's rank type (the functions are templates over it: signed and unsigned, 32 and 64 bit)
template <typename T, typename RT, typename Cmp>
static void check_tuple(const std::vector<std::vector<int> >& keys, Cmp cmp, const char* tname0, bool selection) {
    const std::string tname_s = std::string(tname0) + "/rank:" + rank_type_name<RT>();
    const char* tname = tname_s.c_str();
    const size_t m = keys.size();
    std::vector<std::vector<T> > store(m);
    std::vector<std::pair<T*, T*> > seqs(m);
    long N = 0;
    for (size_t i = 0; i < m; ++i) {
        store[i].reserve(keys[i].size());   // capacity == size: a read behind a sequence is an ASan report
        for (size_t p = 0; p < keys[i].size(); ++p) {
            T v;
            if constexpr (std::is_same<T, int>::value) v = keys[i][p];
            else { v.key = keys[i][p]; v.tag = (int)(i * 1000 + p); }
            store[i].push_back(v);
        }
        seqs[i] = { store[i].data(), store[i].data() + store[i].size() };
        N += (long)keys[i].size();
    }
    // brute force: merged order by (value, seq, pos)
    struct R { int key; unsigned seq, pos; };
    std::vector<R> all;
    for (size_t i = 0; i < m; ++i)
        for (size_t p = 0; p < keys[i].size(); ++p) all.push_back({ keys[i][p], (unsigned)i, (unsigned)p });
    auto key_of = [](const T& v) { if constexpr (std::is_same<T, int>::value) return v; else return v.key; };
    auto mk = [](int k) { T v; if constexpr (std::is_same<T, int>::value) v = k; else { v.key = k; v.tag = -1; } return v; };
    std::stable_sort(all.begin(), all.end(), [&](const R& a, const R& b) { return cmp(mk(a.key), mk(b.key)); });

    std::vector<long> expect(m, 0);
    for (long rank = 0; rank <= N; ++rank) {
        if (rank > 0) ++expect[all[rank - 1].seq];
        std::vector<T*> offs(m, nullptr);
        verif::context() = "multisequence_partition";
        const RT rk = (RT)rank;
        tlx::multisequence_partition(seqs.begin(), seqs.end(), rk, offs.begin(), cmp);
        verif::context() = "";
        ++g_pairs;
        bool tie = rank > 0 && rank < N && !cmp(mk(all[rank - 1].key), mk(all[rank].key));
        if (tie) ++g_tied;
        long left = 0;
        bool inrange = true;
        for (size_t i = 0; i < m; ++i) {
            if (offs[i] < seqs[i].first || offs[i] > seqs[i].second) inrange = false;
            else left += offs[i] - seqs[i].first;
        }
        std::string why;
        if (!inrange) why = "offset-out-of-range";
        else if (left != rank) why = "left-size";
        else {
            // max(left) <= min(right)
            bool have_l = false, have_r = false;
            T maxl{}, minr{};
            for (size_t i = 0; i < m; ++i) {
                if (offs[i] > seqs[i].first) { T v = *(offs[i] - 1); if (!have_l || cmp(maxl, v)) maxl = v; have_l = true; }
                if (offs[i] < seqs[i].second) { T v = *offs[i]; if (!have_r || cmp(v, minr)) minr = v; have_r = true; }
            }
            if (have_l && have_r && cmp(minr, maxl)) why = "order";
            else
                for (size_t i = 0; i < m; ++i)
                    if (offs[i] - seqs[i].first != expect[i]) { why = "tie-break"; break; }
        }
        if (!why.empty()) {
            std::string got, want;
            for (size_t i = 0; i < m; ++i) {
                got += (i ? "," : "") + (inrange ? std::to_string(offs[i] - seqs[i].first) : std::string("?"));
                want += (i ? "," : "") + std::to_string(expect[i]);
            }
            verif::fail(std::string("C08:multisequence_partition:") + why,
                        std::string(tname) + " rank " + std::to_string(rank) + " of " + std::to_string(N) +
                        ": split (" + got + "), expected (" + want + "); sequences " + tuple_str(keys));
            return;
        }
        if (selection && rank < N) {
            long offset;
            verif::context() = "multisequence_selection";
            T v;
            bool aliased = rank % 3 == 2;
            if (aliased) {
                // rank is taken by const reference and offset by reference: "select rank r, r := its offset"
                RT r = rk;
                v = tlx::multisequence_selection<T>(seqs.begin(), seqs.end(), r, r, cmp);
                offset = (long)r;
                ++g_aliased;
            }
            else {
                RT off = (RT)77;
                v = tlx::multisequence_selection<T>(seqs.begin(), seqs.end(), rk, off, cmp);
                offset = (long)off;
            }
            verif::context() = "";
            long first = rank;
            while (first > 0 && !cmp(mk(all[first - 1].key), mk(all[rank].key))) --first;
            std::string w;
            if (cmp(v, mk(all[rank].key)) || cmp(mk(all[rank].key), v)) w = "value";
            else if (offset != rank - first) w = "offset";
            if (!w.empty()) {
                verif::fail(std::string("C08:multisequence_selection:") + w,
                            std::string(tname) + " rank " + std::to_string(rank) + (aliased ? " (one variable passed as rank and as offset)" : "") + ": value key " + std::to_string(key_of(v)) +
                            " offset " + std::to_string(offset) + ", expected key " + std::to_string(all[rank].key) +
                            " offset " + std::to_string(rank - first) + "; sequences " + tuple_str(keys));
                return;
            }
        }
    }
}

static void check_all_types(std::vector<std::vector<int> > keys, bool descending) {
    static unsigned turn = 0;
    ++turn;
    if (descending) for (auto& v : keys) std::reverse(v.begin(), v.end());
#define BOTH(RTI, RTK)                                                                         \
    if (descending) { check_tuple<int, RTI>(keys, std::greater<int>(), "int/greater", true);   \
                      check_tuple<KV, RTK>(keys, KVGreater(), "KV/greater", true); }           \
    else { check_tuple<int, RTI>(keys, std::less<int>(), "int/less", true);                    \
           check_tuple<KV, RTK>(keys, KVLess(), "KV/less", true); }
    switch (turn % 3) {
    case 0: BOTH(long, size_t) break;
    case 1: BOTH(unsigned long long, int) break;
    default: BOTH(unsigned, long long) break;
    }
#undef BOTH
}

// all sorted sequences of length 1..maxlen over {0,1,2}
static std::vector<std::vector<int> > small_sequences(size_t maxlen) {
    std::vector<std::vector<int> > out;
    for (size_t len = 1; len <= maxlen; ++len)
        for (size_t a = 0; a <= len; ++a)
            for (size_t b = 0; a + b <= len; ++b) {
                std::vector<int> v;
                v.insert(v.end(), a, 0); v.insert(v.end(), b, 1); v.insert(v.end(), len - a - b, 2);
                out.push_back(v);
            }
    return out;
}

static void mode_exh(uint64_t index, unsigned fixed_m, size_t maxlen, uint64_t block) {
    auto S = small_sequences(maxlen);
    const uint64_t ns = S.size();
    // enumerate tuples: m = 1..3 (or exactly fixed_m)
    uint64_t lo = index * block, hi = lo + block, pos = 0;
    for (unsigned m = fixed_m ? fixed_m : 1; m <= (fixed_m ? fixed_m : 3); ++m) {
        uint64_t cnt = 1;
        for (unsigned i = 0; i < m; ++i) cnt *= ns;
        if (hi <= pos) break;
        for (uint64_t t = (lo > pos ? lo - pos : 0); t < cnt && pos + t < hi; ++t) {
            std::vector<std::vector<int> > keys(m);
            uint64_t x = t;
            for (unsigned i = 0; i < m; ++i) { keys[i] = S[x % ns]; x /= ns; }
            check_all_types(keys, false);
            verif::count("exhaustive_tuples");
        }
        pos += cnt;
    }
    verif::cover(std::string("exh:m") + (fixed_m ? "=4" : "<=3") + ":block=" + std::to_string(index));
}

static void mode_rand(Rng& rng, uint64_t) {
    for (int r = 0; r < 60; ++r) {
        // mostly few sequences; sometimes many (the first-level sample sort of the
        // partition handles more than 16 samples differently from small ones)
        size_t m = rng.chance(1, 8) ? 17 + rng.below(48) : 1 + rng.below(rng.chance(1, 6) ? 10 : 6);
        bool many = m > 16;
        int universe = (int)rng.pick(std::vector<int>{ 1, 2, 3, 4, 4, 10, 100000 });
        int lenmode = (int)rng.below(4);
        std::vector<std::vector<int> > keys(m);
        for (auto& v : keys) {
            size_t len;
            switch (lenmode) {
            case 0: len = 1 + rng.below(many && rng.coin() ? 2 : 9); break;
            case 1: { size_t p = 1u << (1 + rng.below(7)); len = p - 1 + rng.below(3); if (!len) len = 1; break; }
            case 2: len = rng.chance(1, 3) ? 150 + rng.below(100) : 1 + rng.below(2); break;
            default: len = 1 + rng.below(40); break;
            }
            v.resize(len);
            for (auto& x : v) x = (int)rng.below(universe);
            std::sort(v.begin(), v.end());
        }
        bool desc = rng.coin();
        if (verif::want_sample(3)) verif::sample((desc ? "descending " : "ascending ") + tuple_str(keys));
        check_all_types(keys, desc);
        verif::count("random_tuples");
        if (many) verif::count("tuples_with_more_than_16_sequences");
        verif::cover("rand:m=" + (many ? std::string(">16") : std::to_string(m)) + ":lenmode=" + std::to_string(lenmode) +
                     ":universe=" + std::to_string(universe) + (desc ? ":desc" : ":asc"));
    }
}

// mode=huge: one run of 2^31+1000 (index 1: 2^32+5) zero bytes in untouched anonymous pages (it costs no
// memory and is sorted) next to a short run: lengths and ranks beyond 32 bits. The expected split is known
// in closed form: by (value, sequence, position) all zeros of run 0 come first, then run 1 in order.
static void mode_huge(Rng& rng, uint64_t index) {
    const size_t B = index % 2 == 0 ? ((size_t)1 << 31) + 1000 : ((size_t)1 << 32) + 5;
    void* mem = mmap(nullptr, B, PROT_READ, MAP_PRIVATE | MAP_ANONYMOUS | MAP_NORESERVE, -1, 0);
    if (mem == MAP_FAILED) { verif::count("huge_mmap_failed"); return; }
    // (non-const pointers: multisequence_selection does not compile for runs of const elements; nothing is written)
    unsigned char* big = static_cast<unsigned char*>(mem);
    std::vector<unsigned char> small = { 0, 0, 1, 2, 2, 5, 9 };
    typedef std::pair<unsigned char*, unsigned char*> Seq;
    for (int order = 0; order < 2; ++order) {   // the big run as sequence 0 and as sequence 1
        std::vector<Seq> seqs(2);
        seqs[order] = { big, big + B };
        seqs[1 - order] = { small.data(), small.data() + small.size() };
        const size_t N = B + small.size();
        // merged order: zeros of sequence 0, zeros of sequence 1, then the non-zero rest of the small run
        const size_t z_small = 2;
        std::vector<size_t> ranks = { 0, 1, 2, 3, B - 1, B, B + 1, B + 2, B + 3, N - 1, N, B / 2, ((size_t)1 << 31) - 1, (size_t)1 << 31, ((size_t)1 << 31) + 1 };
        for (int k = 0; k < 6; ++k) ranks.push_back(rng.below(N + 1));
        for (size_t rank : ranks) {
            if (rank > N) continue;
            size_t want_big, want_small;
            if (order == 0) { want_big = std::min(rank, B); want_small = rank - want_big; }
            else {
                // small run is sequence 0: its zeros come first, then the big run's zeros, then the small rest
                size_t a = std::min(rank, z_small); size_t b = std::min(rank - a, B); want_big = b; want_small = a + (rank - a - b);
            }
            std::vector<unsigned char*> offs(2, nullptr);
            verif::context() = "multisequence_partition";
            if (rank % 2) tlx::multisequence_partition(seqs.begin(), seqs.end(), (long)rank, offs.begin(), std::less<unsigned char>());
            else tlx::multisequence_partition(seqs.begin(), seqs.end(), rank, offs.begin(), std::less<unsigned char>());
            verif::context() = "";
            ++g_pairs;
            size_t got_big = (size_t)(offs[order] - seqs[order].first), got_small = (size_t)(offs[1 - order] - seqs[1 - order].first);
            if (got_big != want_big || got_small != want_small) {
                verif::fail("C08:multisequence_partition:huge", "run of " + std::to_string(B) + " zero bytes as sequence " + std::to_string(order) +
                            " and {0,0,1,2,2,5,9}: rank " + std::to_string(rank) + " split (big " + std::to_string(got_big) + ", small " +
                            std::to_string(got_small) + "), expected (big " + std::to_string(want_big) + ", small " + std::to_string(want_small) + ")");
                munmap(mem, B);
                return;
            }
            if (rank < N) {
                // element at that rank and its offset among the equivalent ones
                unsigned char want_v; size_t want_off;
                size_t zeros = B + z_small;
                if (rank < zeros) { want_v = 0; want_off = rank; }
                else { size_t j = z_small + (rank - zeros); want_v = small[j]; size_t f = j; while (f > 0 && small[f - 1] == want_v) --f; want_off = j - f; }
                long off = -7;
                verif::context() = "multisequence_selection";
                unsigned char v = tlx::multisequence_selection<unsigned char>(seqs.begin(), seqs.end(), (long)rank, off, std::less<unsigned char>());
                verif::context() = "";
                if (v != want_v || (size_t)off != want_off) {
                    verif::fail("C08:multisequence_selection:huge", "run of " + std::to_string(B) + " zero bytes as sequence " + std::to_string(order) +
                                " and {0,0,1,2,2,5,9}: rank " + std::to_string(rank) + " gives value " + std::to_string(v) + " offset " + std::to_string(off) +
                                ", expected value " + std::to_string(want_v) + " offset " + std::to_string(want_off));
                    munmap(mem, B);
                    return;
                }
            }
            verif::count("huge_ranks_checked");
        }
    }
    munmap(mem, B);
    verif::cover(std::string("huge:run-length=") + (index % 2 == 0 ? "2^31+1000" : "2^32+5"));
    verif::sample("huge: " + std::to_string(B) + " zero bytes + a run of 7, both sequence orders, ranks around 0, 2^31, B and N");
}

static void run_case(Rng& rng, uint64_t index) {
    std::string mode = verif::param("mode", "rand");
    uint64_t p0 = g_pairs, t0 = g_tied, a0 = g_aliased;
    if (mode == "exh") mode_exh(index, 0, 4, 500);
    else if (mode == "exh4") mode_exh(index, 4, 3, 2000);
    else if (mode == "huge") mode_huge(rng, index);
    else mode_rand(rng, index);
    verif::count("tuple_rank_pairs", g_pairs - p0);
    verif::count("pairs_with_tie_across_split", g_tied - t0);
    verif::count("selections_with_rank_and_offset_in_one_variable", g_aliased - a0);
}

static void init() { verif::property_id() = "C08"; }
VERIF_MAIN_INIT(run_case, init)
