// C19: string codecs round-trip; helpers equal a direct implementation of their
// documented definition. Three modes:
//   exh   one case per string s of length 0..4 over {sep ',', quote '"', escape '\\',
//         ' ', 'a', 'B', NUL, 0xE9}; s is run through every one-string helper and paired
//         with every t of length 0..2 for the two-string helpers
//   rand  random strings / string vectors (round-trips: join<->split, join_quoted<->
//         split_quoted; replace with overlapping needles; levenshtein; limits)
//   codec base64 / hexdump for every length 0..200 and random lengths up to 10^4;
//         RFC reference in-process + a log re-checked offline by python (base64, binascii)
#include <verif.hpp>
#include <slice.hpp>

#include <cstring>
#include <memory>
#include <stdexcept>
#include <string>
#include <vector>

#include <tlx/string/base64.hpp>
#include <tlx/string/compare_icase.hpp>
#include <tlx/string/contains.hpp>
#include <tlx/string/ends_with.hpp>
#include <tlx/string/equal_icase.hpp>
#include <tlx/string/erase_all.hpp>
#include <tlx/string/hexdump.hpp>
#include <tlx/string/join.hpp>
#include <tlx/string/join_generic.hpp>
#include <tlx/string/join_quoted.hpp>
#include <tlx/string/less_icase.hpp>
#include <tlx/string/levenshtein.hpp>
#include <tlx/string/pad.hpp>
#include <tlx/string/replace.hpp>
#include <tlx/string/split.hpp>
#include <tlx/string/split_quoted.hpp>
#include <tlx/string/starts_with.hpp>
#include <tlx/string/to_lower.hpp>
#include <tlx/string/to_upper.hpp>
#include <tlx/string/trim.hpp>

using verif::Rng;
typedef std::string S;
typedef std::vector<std::string> VS;
typedef tlx::string_view SV;

static uint64_t g_calls = 0;
static FILE* g_log = nullptr;
static uint64_t g_records = 0;

static S show(const S& s) { return "x'" + verif::hex_bytes(s) + "'"; }
static S show(const VS& v) {
    S o = "[";
    for (size_t i = 0; i < v.size(); ++i) o += (i ? "," : "") + show(v[i]);
    return o + "]";
}
static S show(bool b) { return b ? "true" : "false"; }
static S show(int i) { return std::to_string(i); }
static S show(size_t i) { return std::to_string(i); }

#define EXPECT(fn, got, want, args)                                                       \
    do {                                                                                  \
        ++g_calls;                                                                        \
        auto _g = (got); auto _w = (want);                                                \
        if (!(_g == _w))                                                                  \
            verif::fail(S("C19:") + fn, S(fn) + "(" + args + ") returned " + show(_g) +   \
                        ", the documented definition gives " + show(_w));                 \
    } while (0)

/******************************************************************************/
// reference implementations, written from the header documentation

static unsigned char lo(unsigned char c) { return (c >= 'A' && c <= 'Z') ? (unsigned char)(c + 32) : c; }
static unsigned char up(unsigned char c) { return (c >= 'a' && c <= 'z') ? (unsigned char)(c - 32) : c; }
static S r_lower(const S& s) { S o = s; for (auto& c : o) c = (char)lo((unsigned char)c); return o; }
static S r_upper(const S& s) { S o = s; for (auto& c : o) c = (char)up((unsigned char)c); return o; }

static VS r_split(const S& sep, const S& str, size_t limit, size_t min_fields = 0) {
    VS out;
    if (limit != 0) {
        size_t pos = 0;
        for (;;) {
            if (out.size() + 1 == limit) { out.push_back(str.substr(pos)); break; }
            size_t p = str.find(sep, pos);
            if (p == S::npos) { out.push_back(str.substr(pos)); break; }
            out.push_back(str.substr(pos, p - pos));
            pos = p + sep.size();
        }
    }
    if (out.size() < min_fields) out.resize(min_fields);
    return out;
}
static S r_join(const S& glue, const VS& parts) {
    S o;
    for (size_t i = 0; i < parts.size(); ++i) { if (i) o += glue; o += parts[i]; }
    return o;
}
static S r_replace(const S& str, const S& needle, const S& instead, bool all) {
    S o; size_t pos = 0;
    for (;;) {
        size_t p = str.find(needle, pos);
        if (p == S::npos) break;
        o += str.substr(pos, p - pos) + instead;
        pos = p + needle.size();
        if (!all) break;
    }
    return o + str.substr(pos);
}
static bool in_set(char c, const S& set) { return set.find(c) != S::npos; }
static S r_trim(const S& s, const S& drop, bool left, bool right) {
    size_t b = 0, e = s.size();
    if (left) while (b < e && in_set(s[b], drop)) ++b;
    if (right) while (e > b && in_set(s[e - 1], drop)) --e;
    return s.substr(b, e - b);
}
static S r_erase_all(const S& s, const S& drop) { S o; for (char c : s) if (!in_set(c, drop)) o += c; return o; }
static S r_pad(const S& s, size_t len, char c) { S o = s.substr(0, std::min(len, s.size())); while (o.size() < len) o += c; return o; }
static int r_cmp_icase(const S& a, const S& b) {
    size_t n = std::min(a.size(), b.size());
    for (size_t i = 0; i < n; ++i) {
        unsigned char x = lo((unsigned char)a[i]), y = lo((unsigned char)b[i]);
        if (x != y) return x < y ? -1 : +1;
    }
    return a.size() == b.size() ? 0 : (a.size() < b.size() ? -1 : +1);
}
static int sgn(int x) { return (x > 0) - (x < 0); }
static size_t r_lev(const S& a, const S& b, bool icase) {
    std::vector<std::vector<size_t> > d(a.size() + 1, std::vector<size_t>(b.size() + 1));
    for (size_t i = 0; i <= a.size(); ++i) d[i][0] = i;
    for (size_t j = 0; j <= b.size(); ++j) d[0][j] = j;
    for (size_t i = 1; i <= a.size(); ++i)
        for (size_t j = 1; j <= b.size(); ++j) {
            bool eq = icase ? lo((unsigned char)a[i - 1]) == lo((unsigned char)b[j - 1]) : a[i - 1] == b[j - 1];
            d[i][j] = std::min(std::min(d[i - 1][j] + 1, d[i][j - 1] + 1), d[i - 1][j - 1] + (eq ? 0 : 1));
        }
    return d[a.size()][b.size()];
}
static S r_hex(const S& s, bool upper) {
    const char* d = upper ? "0123456789ABCDEF" : "0123456789abcdef";
    S o;
    for (unsigned char c : s) { o += d[c >> 4]; o += d[c & 15]; }
    return o;
}
static S r_b64(const S& s) {
    static const char* t = "ABCDEFGHIJKLMNOPQRSTUVWXYZabcdefghijklmnopqrstuvwxyz0123456789+/";
    S o;
    size_t i = 0;
    for (; i + 2 < s.size(); i += 3) {
        unsigned v = ((unsigned char)s[i] << 16) | ((unsigned char)s[i + 1] << 8) | (unsigned char)s[i + 2];
        o += t[v >> 18]; o += t[(v >> 12) & 63]; o += t[(v >> 6) & 63]; o += t[v & 63];
    }
    if (s.size() - i == 1) { unsigned v = (unsigned char)s[i] << 16; o += t[v >> 18]; o += t[(v >> 12) & 63]; o += "=="; }
    else if (s.size() - i == 2) { unsigned v = ((unsigned char)s[i] << 16) | ((unsigned char)s[i + 1] << 8); o += t[v >> 18]; o += t[(v >> 12) & 63]; o += t[(v >> 6) & 63]; o += "="; }
    return o;
}

/******************************************************************************/

static const unsigned char ALPHA[8] = { ',', '"', '\\', ' ', 'a', 'B', 0x00, 0xE9 };

//! the idx-th string in length-lexicographic order over ALPHA
static S nth_string(uint64_t idx) {
    size_t len = 0; uint64_t block = 1;
    while (idx >= block) { idx -= block; block *= 8; ++len; }
    S s(len, 0);
    for (size_t i = len; i-- > 0;) { s[i] = (char)ALPHA[idx % 8]; idx /= 8; }
    return s;
}
static bool has_nul(const S& s) { return s.find('\0') != S::npos; }


struct Slice : verif::Slice {
    SV sv;
    explicit Slice(const S& s) : verif::Slice(s), sv(data(), size()) {}
};

static void check_one_string(const S& s) {
    S a = show(s);
    Slice slice_s(s);
    const SV sv_s = slice_s.sv;
    // case conversion
    { S t = s; tlx::to_lower(&t); EXPECT("to_lower(string*)", t, r_lower(s), a); }
    EXPECT("to_lower(string_view)", tlx::to_lower(sv_s), r_lower(s), a);
    { S t = s; tlx::to_upper(&t); EXPECT("to_upper(string*)", t, r_upper(s), a); }
    EXPECT("to_upper(string_view)", tlx::to_upper(sv_s), r_upper(s), a);
    // trim family with the default set, a char and a set (which may hold NUL)
    const S dflt = " \r\n\t";
    const S sets[3] = { S(" ,"), S("\0a", 2), S("\xE9\"") };
    for (int lr = 0; lr < 3; ++lr) {
        bool L = lr != 1, R = lr != 2;   // 0 = both, 1 = right only, 2 = left only
        const char* nm = lr == 0 ? "trim" : lr == 1 ? "trim_right" : "trim_left";
        auto ip = [&](S* x) -> S& { return lr == 0 ? tlx::trim(x) : lr == 1 ? tlx::trim_right(x) : tlx::trim_left(x); };
        auto ipd = [&](S* x, SV d) -> S& { return lr == 0 ? tlx::trim(x, d) : lr == 1 ? tlx::trim_right(x, d) : tlx::trim_left(x, d); };
        auto ipc = [&](S* x, char d) -> S& { return lr == 0 ? tlx::trim(x, d) : lr == 1 ? tlx::trim_right(x, d) : tlx::trim_left(x, d); };
        auto vp = [&](SV* x) -> SV& { return lr == 0 ? tlx::trim(x) : lr == 1 ? tlx::trim_right(x) : tlx::trim_left(x); };
        auto vpd = [&](SV* x, SV d) -> SV& { return lr == 0 ? tlx::trim(x, d) : lr == 1 ? tlx::trim_right(x, d) : tlx::trim_left(x, d); };
        auto vpc = [&](SV* x, char d) -> SV& { return lr == 0 ? tlx::trim(x, d) : lr == 1 ? tlx::trim_right(x, d) : tlx::trim_left(x, d); };
        auto vv = [&](SV x) -> SV { return lr == 0 ? tlx::trim(x) : lr == 1 ? tlx::trim_right(x) : tlx::trim_left(x); };
        auto vvd = [&](SV x, SV d) -> SV { return lr == 0 ? tlx::trim(x, d) : lr == 1 ? tlx::trim_right(x, d) : tlx::trim_left(x, d); };
        auto vvc = [&](SV x, char d) -> SV { return lr == 0 ? tlx::trim(x, d) : lr == 1 ? tlx::trim_right(x, d) : tlx::trim_left(x, d); };
        // widen s with default-set characters so the default overloads have work to do
        for (int w = 0; w < 2; ++w) {
            S x = w ? " \t" + s + "\r\n " : s;
            S ax = show(x);
            { S t = x; S& r = ip(&t); EXPECT(S(nm) + "(string*)", t, r_trim(x, dflt, L, R), ax); if (&r != &t) verif::fail(S("C19:") + nm + "(string*)", "does not return its argument"); }
            { SV t(x); vp(&t); EXPECT(S(nm) + "(string_view*)", S(t.data(), t.size()), r_trim(x, dflt, L, R), ax); }
            { SV t = vv(SV(x)); EXPECT(S(nm) + "(string_view)", S(t.data(), t.size()), r_trim(x, dflt, L, R), ax); }
        }
        for (const S& d : sets) {
            { S t = s; ipd(&t, SV(d)); EXPECT(S(nm) + "(string*,set)", t, r_trim(s, d, L, R), a + "," + show(d)); }
            { SV t(s); vpd(&t, SV(d)); EXPECT(S(nm) + "(string_view*,set)", S(t.data(), t.size()), r_trim(s, d, L, R), a + "," + show(d)); }
            { SV t = vvd(sv_s, SV(d)); EXPECT(S(nm) + "(string_view,set)", S(t.data(), t.size()), r_trim(s, d, L, R), a + "," + show(d)); }
        }
        for (unsigned char c : ALPHA) {
            S d(1, (char)c);
            { S t = s; ipc(&t, (char)c); EXPECT(S(nm) + "(string*,char)", t, r_trim(s, d, L, R), a + "," + show(d)); }
            { SV t(s); vpc(&t, (char)c); EXPECT(S(nm) + "(string_view*,char)", S(t.data(), t.size()), r_trim(s, d, L, R), a + "," + show(d)); }
            { SV t = vvc(sv_s, (char)c); EXPECT(S(nm) + "(string_view,char)", S(t.data(), t.size()), r_trim(s, d, L, R), a + "," + show(d)); }
        }
    }
    // erase_all, contains(char), replace(char,char), split(char), pad
    for (unsigned char c : ALPHA) {
        S d(1, (char)c), ad = a + "," + show(d);
        { S t = s; tlx::erase_all(&t, (char)c); EXPECT("erase_all(string*,char)", t, r_erase_all(s, d), ad); }
        EXPECT("erase_all(string_view,char)", tlx::erase_all(sv_s, (char)c), r_erase_all(s, d), ad);
        EXPECT("contains(string_view,char)", tlx::contains(sv_s, (char)c), s.find((char)c) != S::npos, ad);
        { S t = s; tlx::replace_first(&t, (char)c, 'Z'); EXPECT("replace_first(string*,char,char)", t, r_replace(s, d, "Z", false), ad); }
        EXPECT("replace_first(string_view,char,char)", tlx::replace_first(sv_s, (char)c, 'Z'), r_replace(s, d, "Z", false), ad);
        { S t = s; tlx::replace_all(&t, (char)c, 'Z'); EXPECT("replace_all(string*,char,char)", t, r_replace(s, d, "Z", true), ad); }
        EXPECT("replace_all(string_view,char,char)", tlx::replace_all(sv_s, (char)c, 'Z'), r_replace(s, d, "Z", true), ad);
        for (size_t limit : { (size_t)0, (size_t)1, (size_t)2, (size_t)3, S::npos }) {
            EXPECT("split(char)", tlx::split((char)c, sv_s, limit), r_split(d, s, limit), ad + ",limit=" + std::to_string(limit));
            VS into{ "stale" };
            tlx::split(&into, (char)c, sv_s, limit);
            EXPECT("split(into,char)", into, r_split(d, s, limit), ad + ",limit=" + std::to_string(limit));
            for (size_t mf : { (size_t)0, (size_t)2, (size_t)4 }) {
                EXPECT("split(char,min_fields)", tlx::split((char)c, sv_s, mf, limit), r_split(d, s, limit, mf), ad + ",min=" + std::to_string(mf) + ",limit=" + std::to_string(limit));
                VS into2{ "stale" };
                tlx::split(&into2, (char)c, sv_s, mf, limit);
                EXPECT("split(into,char,min_fields)", into2, r_split(d, s, limit, mf), ad);
            }
        }
    }
    for (const S& d : sets) {
        { S t = s; tlx::erase_all(&t, SV(d)); EXPECT("erase_all(string*,set)", t, r_erase_all(s, d), a + "," + show(d)); }
        EXPECT("erase_all(string_view,set)", tlx::erase_all(sv_s, SV(d)), r_erase_all(s, d), a + "," + show(d));
    }
    { S t = s; tlx::erase_all(&t); EXPECT("erase_all(string*)", t, r_erase_all(s, " "), a); }
    EXPECT("erase_all(string_view)", tlx::erase_all(sv_s), r_erase_all(s, " "), a);
    for (size_t len = 0; len <= 6; ++len) {
        EXPECT("pad", tlx::pad(sv_s, len, '.'), r_pad(s, len, '.'), a + "," + std::to_string(len));
        EXPECT("pad", tlx::pad(sv_s, len), r_pad(s, len, ' '), a + "," + std::to_string(len));
    }
    // hexdump / parse_hexdump, base64 (short strings; all lengths are in mode=codec)
    EXPECT("hexdump(string_view)", tlx::hexdump(sv_s), r_hex(s, true), a);
    EXPECT("hexdump_lc(string_view)", tlx::hexdump_lc(sv_s), r_hex(s, false), a);
    EXPECT("parse_hexdump(hexdump)", tlx::parse_hexdump(tlx::hexdump(sv_s)), s, a);
    EXPECT("parse_hexdump(hexdump_lc)", tlx::parse_hexdump(tlx::hexdump_lc(sv_s)), s, a);
    EXPECT("base64_encode", tlx::base64_encode(sv_s), r_b64(s), a);
    EXPECT("base64_decode(base64_encode)", tlx::base64_decode(SV(tlx::base64_encode(sv_s)), true), s, a);
    // join_quoted <-> split_quoted for the one-element vector and for a split of s into fields
    {
        VS v{ s };
        S j = tlx::join_quoted(v, ',', '"', '\\');
        VS back;
        bool threw = false;
        try { back = tlx::split_quoted(SV(j), ',', '"', '\\'); } catch (std::exception& e) { threw = true; back = VS{ S("exception: ") + e.what() }; }
        ++g_calls;
        if (threw || back != v)
            verif::fail("C19:join_quoted/split_quoted:round-trip", "split_quoted(join_quoted(" + show(v) + ") = " + show(j) + ") gives " + show(back));
    }
}

static void check_two_strings(const S& s, const S& t) {
    S a = show(s) + "," + show(t);
    Slice slice_s(s), slice_t(t);
    const SV sv_s = slice_s.sv, sv_t = slice_t.sv;
    bool cs = !has_nul(s), ct = !has_nul(t);
    // starts/ends/contains
    bool sw = s.size() >= t.size() && s.compare(0, t.size(), t) == 0;
    bool ew = s.size() >= t.size() && s.compare(s.size() - t.size(), t.size(), t) == 0;
    bool swi = s.size() >= t.size() && r_lower(s.substr(0, t.size())) == r_lower(t);
    bool ewi = s.size() >= t.size() && r_lower(s.substr(s.size() - t.size())) == r_lower(t);
    EXPECT("starts_with", tlx::starts_with(sv_s, sv_t), sw, a);
    EXPECT("starts_with_icase", tlx::starts_with_icase(sv_s, sv_t), swi, a);
    EXPECT("ends_with(view,view)", tlx::ends_with(sv_s, sv_t), ew, a);
    EXPECT("ends_with_icase(view,view)", tlx::ends_with_icase(sv_s, sv_t), ewi, a);
    if (cs) { EXPECT("ends_with(cstr,view)", tlx::ends_with(s.c_str(), sv_t), ew, a); EXPECT("ends_with_icase(cstr,view)", tlx::ends_with_icase(s.c_str(), sv_t), ewi, a); }
    if (ct) { EXPECT("ends_with(view,cstr)", tlx::ends_with(sv_s, t.c_str()), ew, a); EXPECT("ends_with_icase(view,cstr)", tlx::ends_with_icase(sv_s, t.c_str()), ewi, a); }
    if (cs && ct) { EXPECT("ends_with(cstr,cstr)", tlx::ends_with(s.c_str(), t.c_str()), ew, a); EXPECT("ends_with_icase(cstr,cstr)", tlx::ends_with_icase(s.c_str(), t.c_str()), ewi, a); }
    EXPECT("contains(view,view)", tlx::contains(sv_s, sv_t), s.find(t) != S::npos, a);
    // case-insensitive comparison: sign like strcmp on the lower-cased bytes (unsigned)
    int rc = r_cmp_icase(s, t);
    EXPECT("compare_icase(view,view)", sgn(tlx::compare_icase(sv_s, sv_t)), rc, a);
    EXPECT("equal_icase(view,view)", tlx::equal_icase(sv_s, sv_t), rc == 0, a);
    if (cs) { EXPECT("compare_icase(cstr,view)", sgn(tlx::compare_icase(s.c_str(), sv_t)), rc, a); EXPECT("equal_icase(cstr,view)", tlx::equal_icase(s.c_str(), sv_t), rc == 0, a); }
    if (ct) { EXPECT("compare_icase(view,cstr)", sgn(tlx::compare_icase(sv_s, t.c_str())), rc, a); EXPECT("equal_icase(view,cstr)", tlx::equal_icase(sv_s, t.c_str()), rc == 0, a); }
    if (cs && ct) { EXPECT("compare_icase(cstr,cstr)", sgn(tlx::compare_icase(s.c_str(), t.c_str())), rc, a); EXPECT("equal_icase(cstr,cstr)", tlx::equal_icase(s.c_str(), t.c_str()), rc == 0, a); }
    // less_icase: the documentation does not fix where bytes >= 0x80 sort; required: agreement with
    // compare_icase < 0 when both strings are 7-bit, irreflexivity/asymmetry and consistency
    // with equal_icase always, and all four overloads agree with each other
    {
        bool l_st = tlx::less_icase(sv_s, sv_t), l_ts = tlx::less_icase(sv_t, sv_s);
        ++g_calls;
        bool seven = true;
        for (unsigned char c : s + t) if (c >= 0x80) seven = false;
        if (seven && l_st != (rc < 0)) verif::fail("C19:less_icase(view,view)", "less_icase(" + a + ") = " + show(l_st) + " but compare_icase gives " + show(rc));
        if (l_st && l_ts) verif::fail("C19:less_icase(view,view)", "not asymmetric for " + a);
        if ((rc == 0) != (!l_st && !l_ts)) verif::fail("C19:less_icase(view,view)", "inconsistent with equal_icase for " + a);
        if (cs) EXPECT("less_icase(cstr,view)", tlx::less_icase(s.c_str(), sv_t), l_st, a);
        if (ct) EXPECT("less_icase(view,cstr)", tlx::less_icase(sv_s, t.c_str()), l_st, a);
        if (cs && ct) EXPECT("less_icase(cstr,cstr)", tlx::less_icase(s.c_str(), t.c_str()), l_st, a);
        EXPECT("less_icase_asc", tlx::less_icase_asc()(sv_s, sv_t), l_st, a);
    }
    // levenshtein
    EXPECT("levenshtein(view,view)", tlx::levenshtein(sv_s, sv_t), r_lev(s, t, false), a);
    EXPECT("levenshtein_icase(view,view)", tlx::levenshtein_icase(sv_s, sv_t), r_lev(s, t, true), a);
    if (cs && ct) { EXPECT("levenshtein(cstr,cstr)", tlx::levenshtein(s.c_str(), t.c_str()), r_lev(s, t, false), a); EXPECT("levenshtein_icase(cstr,cstr)", tlx::levenshtein_icase(s.c_str(), t.c_str()), r_lev(s, t, true), a); }
    if (t.empty()) return;
    // t as needle / separator (non-empty)
    for (const S& ins : { S(), S("Z"), t + t, S("a") + t }) {
        S ai = a + "," + show(ins);
        { S x = s; tlx::replace_first(&x, sv_t, SV(ins)); EXPECT("replace_first(string*)", x, r_replace(s, t, ins, false), ai); }
        EXPECT("replace_first(string_view)", tlx::replace_first(sv_s, sv_t, SV(ins)), r_replace(s, t, ins, false), ai);
        { S x = s; tlx::replace_all(&x, sv_t, SV(ins)); EXPECT("replace_all(string*)", x, r_replace(s, t, ins, true), ai); }
        EXPECT("replace_all(string_view)", tlx::replace_all(sv_s, sv_t, SV(ins)), r_replace(s, t, ins, true), ai);
    }
    for (size_t limit : { (size_t)0, (size_t)1, (size_t)2, (size_t)3, S::npos }) {
        S al = a + ",limit=" + std::to_string(limit);
        EXPECT("split(string)", tlx::split(sv_t, sv_s, limit), r_split(t, s, limit), al);
        VS into{ "stale" };
        tlx::split(&into, sv_t, sv_s, limit);
        EXPECT("split(into,string)", into, r_split(t, s, limit), al);
        EXPECT("split(string,min_fields)", tlx::split(sv_t, sv_s, (size_t)3, limit), r_split(t, s, limit, 3), al);
        VS into2{ "stale" };
        tlx::split(&into2, sv_t, sv_s, (size_t)3, limit);
        EXPECT("split(into,string,min_fields)", into2, r_split(t, s, limit, 3), al);
    }
}

/******************************************************************************/

static S rand_string(Rng& rng, size_t maxlen, const S& alphabet) {
    size_t n = rng.below(maxlen + 1);
    S s(n, 0);
    for (auto& c : s) c = alphabet[rng.below(alphabet.size())];
    return s;
}

static void rand_case(Rng& rng) {
    // --- join <-> split round trip: parts free of the separator's characters
    {
        S sep = rng.pick(std::vector<S>{ ",", ", ", "aa", "aba", "abab", "--", "\n", S("\0", 1), "\xE9\xE9", "ab", "::" });
        S alpha = "xyzXYZ \t\"\\\x80\xFF";
        if (sep.find('\0') == S::npos && rng.coin()) alpha += S("\0", 1);
        size_t np = 1 + rng.below(6);
        VS parts;
        for (size_t i = 0; i < np; ++i) parts.push_back(rng.chance(1, 3) ? S() : rand_string(rng, 6, alpha));
        S j = tlx::join(SV(sep), parts);
        EXPECT("join(string_view)", j, r_join(sep, parts), show(sep) + "," + show(parts));
        if (sep.find('\0') == S::npos) EXPECT("join(const char*)", tlx::join(sep.c_str(), parts), r_join(sep, parts), show(sep) + "," + show(parts));
        EXPECT("split(join)", tlx::split(SV(sep), SV(j)), parts, show(sep) + "," + show(j));
        if (sep.size() == 1) {
            EXPECT("join(char)", tlx::join(sep[0], parts), r_join(sep, parts), show(sep) + "," + show(parts));
            EXPECT("split(char,join)", tlx::split(sep[0], SV(tlx::join(sep[0], parts))), parts, show(sep) + "," + show(parts));
        }
        if (parts.back().empty()) verif::count("roundtrip_trailing_empty_part");
        verif::count("roundtrips_join_split");
    }
    // --- join_quoted <-> split_quoted for arbitrary vectors
    {
        char sep = rng.pick(std::vector<char>{ ' ', ',', ';', '|', '\t' });
        char quote = rng.pick(std::vector<char>{ '"', '\'' });
        char esc = rng.pick(std::vector<char>{ '\\', '%' });
        S alpha = S("ab ") + sep + sep + quote + quote + esc + esc + "\n\r\tnrt\x80" + S("\0", 1);
        size_t n = rng.below(6);
        VS v;
        for (size_t i = 0; i < n; ++i) v.push_back(rng.chance(1, 5) ? S() : rand_string(rng, 8, alpha));
        bool dflt = sep == ' ' && quote == '"' && esc == '\\' && rng.coin();
        S j = dflt ? tlx::join_quoted(v) : tlx::join_quoted(v, sep, quote, esc);
        VS back; bool threw = false;
        try { back = dflt ? tlx::split_quoted(SV(j)) : tlx::split_quoted(SV(j), sep, quote, esc); }
        catch (std::exception& e) { threw = true; back = VS{ S("exception: ") + e.what() }; }
        ++g_calls;
        if (threw || back != v)
            verif::fail("C19:join_quoted/split_quoted:round-trip", S("sep=") + show(S(1, sep)) + " quote=" + show(S(1, quote)) + " escape=" + show(S(1, esc)) + ": split_quoted(join_quoted(" + show(v) + ") = " + show(j) + ") gives " + show(back));
        for (auto& x : v) { if (x.empty()) verif::count("quoted_empty_field"); else if (x[0] == quote) verif::count("quoted_field_starting_with_quote"); }
        verif::count("roundtrips_quoted");
    }
    // --- longer strings through the two-string helpers (overlapping needles, bordered separators)
    {
        S alpha = rng.pick(std::vector<S>{ "ab", "aAbB", "a,", S("a\0", 2), "ab\xE9\xC9" });
        S s = rand_string(rng, 40, alpha), t = rand_string(rng, rng.coin() ? 3 : 40, alpha);
        check_two_strings(s, t);
        if (!t.empty() && s.find(t) != S::npos) verif::count("rand_needle_occurs");
    }
    {
        S s = rand_string(rng, 40, " \t\r\nab,\"\\");
        check_one_string(s);
    }
}

/******************************************************************************/

static S content(Rng& rng, size_t n, int kind) {
    S s(n, 0);
    for (auto& c : s) c = kind == 0 ? (char)rng.below(256) : kind == 1 ? 0 : kind == 2 ? (char)0xFF : (char)('a' + rng.below(3));
    return s;
}

static void log_record(const char* op, const S& in, const S& out, size_t arg) {
    if (!g_log) return;
    fprintf(g_log, "%s %zu %s %s\n", op, arg, verif::hex_bytes(in).c_str(), verif::hex_bytes(out).c_str());
    ++g_records;
}

static void codec_one(const S& s, Rng& rng, bool log) {
    S a = std::to_string(s.size()) + " bytes " + show(s.substr(0, 24)) + (s.size() > 24 ? "..." : "");
    Slice sl(s);
    // hexdump family (pointer+size entry points read from a block that is not NUL-terminated)
    S hu = tlx::hexdump(sl.sv.data(), s.size()), hl = tlx::hexdump_lc(sl.sv.data(), s.size());
    EXPECT("hexdump(ptr,size)", hu, r_hex(s, true), a);
    EXPECT("hexdump_lc(ptr,size)", hl, r_hex(s, false), a);
    EXPECT("hexdump(string_view)", tlx::hexdump(SV(s)), hu, a);
    EXPECT("hexdump_lc(string_view)", tlx::hexdump_lc(SV(s)), hl, a);
    EXPECT("hexdump(vector<char>)", tlx::hexdump(std::vector<char>(s.begin(), s.end())), hu, a);
    EXPECT("hexdump(vector<uint8_t>)", tlx::hexdump(std::vector<std::uint8_t>(s.begin(), s.end())), hu, a);
    EXPECT("hexdump_lc(vector<char>)", tlx::hexdump_lc(std::vector<char>(s.begin(), s.end())), hl, a);
    EXPECT("hexdump_lc(vector<uint8_t>)", tlx::hexdump_lc(std::vector<std::uint8_t>(s.begin(), s.end())), hl, a);
    EXPECT("parse_hexdump(hexdump)", tlx::parse_hexdump(SV(hu)), s, a);
    EXPECT("parse_hexdump(hexdump_lc)", tlx::parse_hexdump(SV(hl)), s, a);
    {   // hexdump_sourcecode(): a C array definition whose 0xHH tokens are the bytes, 16 per line
        S src = tlx::hexdump_sourcecode(SV(s), "name_of_array");
        S back, head = "const std::uint8_t name_of_array[" + std::to_string(s.size()) + "] = {\n";
        bool ok = src.compare(0, head.size(), head) == 0 && src.size() >= head.size() + 4 && src.compare(src.size() - 4, 4, "\n};\n") == 0;
        size_t per_line = 0, max_line = 0;
        for (size_t i = head.size(); ok && i + 4 <= src.size() - 3;) {
            if (src[i] == '\n') { per_line = 0; ++i; continue; }
            if (src[i] == ',') { ++i; continue; }
            if (src.compare(i, 2, "0x") != 0) { ok = false; break; }
            S byte = tlx::parse_hexdump(SV(src).substr(i + 2, 2));
            if (byte.size() != 1) { ok = false; break; }
            back += byte; i += 4; max_line = std::max(max_line, ++per_line);
        }
        EXPECT("hexdump_sourcecode", (ok && max_line <= 16) ? back : S("<malformed: ") + src.substr(0, 120) + ">", s, a);
    }
    if (log) { log_record("hexdump", s, hu, 0); log_record("hexdump_lc", s, hl, 0); }
    // base64
    S e0 = tlx::base64_encode(sl.sv.data(), s.size());
    EXPECT("base64_encode", e0, r_b64(s), a);
    EXPECT("base64_encode(string_view)", tlx::base64_encode(SV(s)), e0, a);
    if (log) log_record("base64", s, e0, 0);
    for (size_t lb : { (size_t)4, (size_t)8, (size_t)76, (size_t)(4 * (1 + rng.below(30))) }) {
        S e = tlx::base64_encode(sl.sv.data(), s.size(), lb);
        S al = a + ",line_break=" + std::to_string(lb);
        S stripped; size_t line = 0; bool ok = true;
        for (char c : e) {
            if (c == '\n') { if (line != lb) ok = false; line = 0; }
            else { stripped += c; ++line; }
        }
        if (line > lb) ok = false;
        EXPECT("base64_encode(line_break):letters", stripped, r_b64(s), al);
        EXPECT("base64_encode(line_break):line-lengths", ok, true, al + " -> " + show(e.substr(0, 120)));
        if (log) log_record("base64lb", s, e, lb);
        Slice se(e);
        EXPECT("base64_decode(strict)", tlx::base64_decode(se.sv.data(), e.size(), true), s, al);
        EXPECT("base64_decode(non-strict)", tlx::base64_decode(SV(e), false), s, al);
    }
    EXPECT("base64_decode(strict)", tlx::base64_decode(SV(e0), true), s, a);
    EXPECT("base64_decode(non-strict)", tlx::base64_decode(e0.data(), e0.size(), false), s, a);
    // non-strict decoding skips foreign characters, strict throws
    if (!e0.empty()) {
        S dirty = e0; dirty.insert(rng.below(dirty.size() + 1), "*");
        EXPECT("base64_decode(non-strict,dirty)", tlx::base64_decode(SV(dirty), false), s, a);
        bool threw = false;
        try { tlx::base64_decode(SV(dirty), true); } catch (std::runtime_error&) { threw = true; }
        EXPECT("base64_decode(strict,dirty):throws", threw, true, a);
    }
}

static void run_case(Rng& rng, uint64_t index) {
    uint64_t c0 = g_calls;
    S mode = verif::param("mode", "rand");
    if (mode == "exh") {
        S s = nth_string(index);
        check_one_string(s);
        for (uint64_t j = 0; j < 1 + 8 + 64; ++j) check_two_strings(s, nth_string(j));
        // also s as the short side against a few longer strings built from it
        check_two_strings(s + s, s); check_two_strings(s, s + "a");
        verif::cover("exh:len=" + std::to_string(s.size()));
        verif::count("exh_strings");
        verif::set_exhaustive(true);
    }
    else if (mode == "codec") {
        size_t maxlen = (size_t)verif::param_int("maxlen", 200);
        if (index <= maxlen) {
            for (int kind = 0; kind < 4; ++kind) codec_one(content(rng, index, kind), rng, kind == 0);
            verif::count("codec_lengths");
            verif::cover("codec:len%3=" + std::to_string(index % 3));
        }
        else {
            size_t n = rng.below(10000);
            codec_one(content(rng, n, 0), rng, true);
            verif::cover("codec:long:len%3=" + std::to_string(n % 3));
        }
    }
    else {
        for (int r = 0; r < 200; ++r) rand_case(rng);
        verif::cover("rand");
    }
    verif::count("calls_compared", g_calls - c0);
}

static void init() {
    verif::property_id() = "C19";
    if (!verif::st().out.empty() && verif::param("mode", "rand") == "codec") {
        g_log = fopen((verif::st().out + ".log").c_str(), "w");
    }
}
static void finish() {
    if (g_log) { fclose(g_log); g_log = nullptr; }
    verif::count("records_logged", g_records);
}
int main(int argc, char** argv) { return verif::main_loop(argc, argv, run_case, init, finish); }
