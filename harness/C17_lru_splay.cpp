// C17: LruCacheSet / LruCacheMap vs a reference recency list (exceptions, values, pop
// order, final drain) and SplayTree (set / multiset) vs std::set / std::multiset:
// membership, size, in-order sequence after every operation (sortedness of the
// in-order walk == search-tree validity), node allocation balance through an
// arena-checking allocator, key lifetimes through the Tracked ledger, ASan.
#include <verif.hpp>
#include <tracked.hpp>

#include <list>
#include <set>
#include <stdexcept>
#include <string>

namespace std {
template <> struct hash<verif::Tracked> {
    size_t operator()(const verif::Tracked& t) const { return std::hash<int>()(t.key); }
};
}

#include <tlx/container/lru_cache.hpp>
#include <tlx/container/splay_tree.hpp>

using verif::Rng;
using verif::Tracked;

static uint64_t g_ops = 0;
struct Stop {};

static std::string tail(const std::vector<std::string>& trace, size_t n = 40) {
    std::string tr;
    size_t from = trace.size() > n ? trace.size() - n : 0;
    for (size_t i = from; i < trace.size(); ++i) tr += trace[i] + "; ";
    return tr;
}

template <typename T> struct Conv;
template <> struct Conv<int> {
    static int make(int v) { return v; }
    static int get(const int& x) { return x; }
    static const char* name() { return "int"; }
};
template <> struct Conv<std::string> {
    static std::string make(int v) { return "key-" + std::to_string(v) + "-padding-beyond-the-sso-buffer"; }
    static int get(const std::string& x) { return atoi(x.c_str() + 4); }
    static const char* name() { return "string"; }
};
template <> struct Conv<Tracked> {
    static Tracked make(int v) { return Tracked(v, v ^ 0x33); }
    static int get(const Tracked& x) { return (x.payload == (x.key ^ 0x33) && *x.heap == x.key) ? x.key : -999999; }
    static const char* name() { return "Tracked"; }
};

// what an operation did: 0 = returned normally, 1 = std::range_error, 2 = other exception
template <typename F> static int outcome(F f) {
    try { f(); return 0; }
    catch (std::range_error&) { return 1; }
    catch (...) { return 2; }
}

/******************************************************************************/
// LRU caches

template <typename K, typename V, bool IsMap> struct LruType;
template <typename K, typename V> struct LruType<K, V, false> { typedef tlx::LruCacheSet<K, verif::ArenaAlloc<K> > type; };
template <typename K, typename V> struct LruType<K, V, true> { typedef tlx::LruCacheMap<K, V, verif::ArenaAlloc<std::pair<K, V> > > type; };

template <typename K, typename V, bool IsMap>
struct LruDriver {
    typedef typename LruType<K, V, IsMap>::type C;
    Rng& rng;
    std::unique_ptr<C> c;
    std::list<std::pair<int, int> > model;   // front = most recent
    std::vector<std::string> trace;
    int universe, next_val = 1;
    size_t extra_live = 0;   // Tracked objects the harness itself holds during a check
    static const bool tracked = std::is_same<K, Tracked>::value || std::is_same<V, Tracked>::value;
    explicit LruDriver(Rng& r) : rng(r) { universe = (int)rng.pick(std::vector<int>{ 3, 5, 8, 12 }); }

    std::string cname() const { return std::string(IsMap ? "LruCacheMap<" : "LruCacheSet<") + Conv<K>::name() + (IsMap ? std::string(",") + Conv<V>::name() : std::string()) + ">"; }
    void bad(const std::string& what, const std::string& detail) {
        verif::fail(std::string("C17:") + (IsMap ? "LruCacheMap:" : "LruCacheSet:") + what, cname() + " " + what + ": " + detail + " | ops: " + tail(trace));
        throw Stop();
    }
    std::list<std::pair<int, int> >::iterator mfind(int k) {
        auto it = model.begin();
        while (it != model.end() && it->first != k) ++it;
        return it;
    }
    void check(const char* after) {
        const C& cc = *c;
        if (cc.size() != model.size()) bad("size", std::string(after) + ": tlx " + std::to_string(cc.size()) + " model " + std::to_string(model.size()));
        for (int k = 0; k < universe + 2; ++k)
            if (cc.exists(Conv<K>::make(k)) != (mfind(k) != model.end())) bad("exists", std::string(after) + ": key " + std::to_string(k));
        if (tracked) {
            size_t live = verif::Ledger::get().live_count();
            // a Tracked key is stored twice (list node and index), a Tracked value once
            size_t expect = model.size() * (std::is_same<K, Tracked>::value ? 2 : 1) + extra_live;
            if (live != expect) bad("lifetime:live-elements", std::string(after) + ": " + std::to_string(live) + " alive, expected " + std::to_string(expect));
            if (verif::Ledger::get().errors) throw Stop();
        }
        if (verif::ArenaRegistry::get().errors) throw Stop();
    }
    template <bool M = IsMap> typename std::enable_if<M>::type do_put(int k, int v) { c->put(Conv<K>::make(k), Conv<V>::make(v)); }
    template <bool M = IsMap> typename std::enable_if<!M>::type do_put(int k, int) { c->put(Conv<K>::make(k)); }
    template <bool M = IsMap> typename std::enable_if<M>::type put_from_get(int k, int k2) { c->put(Conv<K>::make(k), c->get(Conv<K>::make(k2))); }
    template <bool M = IsMap> typename std::enable_if<!M>::type put_from_get(int, int) {}
    template <bool M = IsMap> typename std::enable_if<M>::type do_pop() {
        auto kv = c->pop();
        int k = Conv<K>::get(kv.first), v = Conv<V>::get(kv.second);
        if (k != model.back().first) bad("pop-order", "popped key " + std::to_string(k) + ", least recently used is " + std::to_string(model.back().first));
        if (v != model.back().second) bad("pop-value", "popped value " + std::to_string(v) + " for key " + std::to_string(k) + ", latest value " + std::to_string(model.back().second));
    }
    template <bool M = IsMap> typename std::enable_if<!M>::type do_pop() {
        K kk = c->pop();
        int k = Conv<K>::get(kk);
        if (k != model.back().first) bad("pop-order", "popped key " + std::to_string(k) + ", least recently used is " + std::to_string(model.back().first));
    }
    template <bool M = IsMap> typename std::enable_if<M>::type do_get(int k, bool touch) {
        auto it = mfind(k);
        bool present = it != model.end();
        int got = 0;
        int oc;
        { K key = Conv<K>::make(k); oc = outcome([&] { got = Conv<V>::get(touch ? c->get_touch(key) : c->get(key)); }); }
        trace.push_back(std::string(touch ? "get_touch(" : "get(") + std::to_string(k) + ")");
        if (oc != (present ? 0 : 1)) bad(touch ? "get_touch-exception" : "get-exception", "key " + std::to_string(k) + (present ? " present" : " absent") + ", outcome " + std::to_string(oc));
        if (present && got != it->second) bad(touch ? "get_touch-value" : "get-value", "key " + std::to_string(k) + " returned " + std::to_string(got) + ", latest value " + std::to_string(it->second));
        if (present && touch) model.splice(model.begin(), model, it);
    }
    template <bool M = IsMap> typename std::enable_if<!M>::type do_get(int, bool) {}

    void op() {
        ++g_ops;
        int k = (int)rng.below(universe + 1);   // universe+1: one key that is rarely present
        K key = Conv<K>::make(k);
        struct Extra { size_t& e; size_t n; Extra(size_t& x, size_t v) : e(x), n(v) { e += n; } ~Extra() { e -= n; } }
        extra(extra_live, std::is_same<K, Tracked>::value ? 1 : 0);
        auto it = mfind(k);
        bool present = it != model.end();
        unsigned r = (unsigned)rng.below(100);
        if (IsMap && r < 4 && !model.empty()) {
            // put() with a value that is a reference into the cache itself (as returned by get())
            int k2 = rng.coin() && present ? k : model.begin()->first;   // source entry: same key or the most recent one
            auto src = mfind(k2);
            int v = src->second;
            put_from_get(k, k2);
            trace.push_back("put(" + std::to_string(k) + ", get(" + std::to_string(k2) + "))");
            auto dst = mfind(k);
            if (dst != model.end()) model.erase(dst);
            model.push_front({ k, v });
            check("put(k, get(k2))");
            verif::count(k == k2 ? "lru_put_value_aliasing_own_entry" : "lru_put_value_from_other_entry");
        }
        else if (r < 30) {
            int v = next_val++;
            do_put(k, v);
            trace.push_back("put(" + std::to_string(k) + (IsMap ? "," + std::to_string(v) : std::string()) + ")");
            if (present) { model.erase(it); verif::count("lru_put_existing"); }
            model.push_front({ k, v });
            check("put");
        }
        else if (r < 42) {
            int oc = outcome([&] { c->touch(key); });
            trace.push_back("touch(" + std::to_string(k) + ")");
            if (oc != (present ? 0 : 1)) bad("touch-exception", "key " + std::to_string(k) + (present ? " present" : " absent") + ", outcome " + std::to_string(oc));
            if (present) model.splice(model.begin(), model, it); else verif::count("lru_exception_on_absent");
            check("touch");
        }
        else if (r < 50) {
            bool res = c->touch_if_exists(key);
            trace.push_back("touch_if_exists(" + std::to_string(k) + ")");
            if (res != present) bad("touch_if_exists", "key " + std::to_string(k));
            if (present) model.splice(model.begin(), model, it);
            check("touch_if_exists");
        }
        else if (r < 60) {
            int oc = outcome([&] { c->erase(key); });
            trace.push_back("erase(" + std::to_string(k) + ")");
            if (oc != (present ? 0 : 1)) bad("erase-exception", "key " + std::to_string(k) + (present ? " present" : " absent") + ", outcome " + std::to_string(oc));
            if (present) model.erase(it); else verif::count("lru_exception_on_absent");
            check("erase");
        }
        else if (r < 67) {
            bool res = c->erase_if_exists(key);
            trace.push_back("erase_if_exists(" + std::to_string(k) + ")");
            if (res != present) bad("erase_if_exists", "key " + std::to_string(k));
            if (present) model.erase(it);
            check("erase_if_exists");
        }
        else if (r < 82) {
            if (IsMap) { do_get(k, rng.coin()); check("get"); }
            else if (!model.empty()) { trace.push_back("pop"); do_pop(); model.pop_back(); check("pop"); verif::count("lru_pops"); }
        }
        else if (r < 97) {
            if (model.empty()) return;
            trace.push_back("pop");
            do_pop(); model.pop_back();
            check("pop");
            verif::count("lru_pops");
        }
        else {
            c->clear(); model.clear(); trace.push_back("clear");
            check("clear");
            verif::count("lru_clear_then_reuse");
        }
    }
};

/******************************************************************************/
// the two cache classes have different allocator value types; construct through helpers

template <typename D> static void lru_run(D& d, Rng& rng) {
    typedef typename D::C C;
    verif::live_trace() = &d.trace;
    try {
        d.c.reset(new C());
        d.check("construct");
        size_t nops = rng.pick(std::vector<size_t>{ 20, 80, 300 });
        for (size_t i = 0; i < nops; ++i) d.op();
        // drain: full recency order
        while (!d.model.empty()) { d.trace.push_back("pop"); d.do_pop(); d.model.pop_back(); d.check("drain"); }
        d.c.reset();
        if (D::tracked && verif::Ledger::get().live_count()) d.bad("lifetime:leak", "elements alive after destruction");
    }
    catch (Stop&) { d.c.reset(); }
    size_t lb = verif::ArenaRegistry::get().live_blocks();
    if (lb && !verif::case_failed()) verif::fail("C17:LruCache:alloc:leak", d.cname() + ": " + std::to_string(lb) + " block(s) never returned");
    verif::ArenaRegistry::get().blocks.clear(); verif::ArenaRegistry::get().errors = 0;
    verif::Ledger::get().live.clear(); verif::Ledger::get().errors = 0;
    verif::cover("lru:" + d.cname() + ":universe=" + std::to_string(d.universe));
    verif::count("lru_histories");
    verif::live_trace() = nullptr;
}

/******************************************************************************/
// SplayTree

struct ModCmp {   // coarse order: keys compare by key/2 -> equivalence classes of two keys
    bool operator()(int a, int b) const { return a / 2 < b / 2; }
};
struct TrackedGreater { bool operator()(const Tracked& a, const Tracked& b) const { return a.key > b.key; } };

template <typename K, typename Cmp, typename MCmp, bool Dup>
struct SplayDriver {
    typedef tlx::SplayTree<K, Cmp, Dup, verif::ArenaAlloc<K> > T;
    typedef typename std::conditional<Dup, std::multiset<int, MCmp>, std::set<int, MCmp> >::type M;
    Rng& rng;
    std::unique_ptr<T> t;
    M model;
    MCmp mcmp;
    std::vector<std::string> trace;
    int universe;
    const char* cmpname;
    SplayDriver(Rng& r, const char* cn) : rng(r), cmpname(cn) { universe = (int)rng.pick(std::vector<int>{ 3, 6, 12, 40 }); }

    std::string tname() const { return std::string("SplayTree<") + Conv<K>::name() + "," + cmpname + (Dup ? ",multiset>" : ",set>"); }
    void bad(const std::string& what, const std::string& detail) {
        verif::fail("C17:SplayTree:" + what, tname() + " " + what + ": " + detail + " | ops: " + tail(trace));
        throw Stop();
    }
    bool equiv(int a, int b) const { return !mcmp(a, b) && !mcmp(b, a); }
    void check(const char* after) {
        const T& ct = *t;
        if (ct.size() != model.size()) bad("size", std::string(after) + ": tlx " + std::to_string(ct.size()) + " model " + std::to_string(model.size()));
        if (ct.empty() != model.empty()) bad("empty", after);
        std::vector<int> keys;
        ct.traverse_preorder([&keys](const K& k) { keys.push_back(Conv<K>::get(k)); });
        if (keys.size() != model.size()) bad("in-order-length", std::string(after) + ": traversal visits " + std::to_string(keys.size()) + " keys, " + std::to_string(model.size()) + " stored");
        size_t i = 0;
        for (int m : model) {
            if (!equiv(keys[i], m)) bad("in-order-sequence", std::string(after) + ": position " + std::to_string(i) + " holds " + std::to_string(keys[i]) + ", model " + std::to_string(m));
            ++i;
        }
        for (size_t j = 1; j < keys.size(); ++j)
            if (mcmp(keys[j], keys[j - 1]) || (!Dup && !mcmp(keys[j - 1], keys[j]))) bad("search-tree-order", std::string(after) + ": in-order walk not " + (Dup ? "non-decreasing" : "strictly increasing") + " at " + std::to_string(j));
        if (!Dup && !ct.check()) bad("check()", after);
        size_t blocks = verif::ArenaRegistry::get().live_blocks();
        if (blocks != model.size()) bad("alloc:node-count", std::string(after) + ": " + std::to_string(blocks) + " node blocks allocated, " + std::to_string(model.size()) + " keys stored");
        if (std::is_same<K, Tracked>::value) {
            size_t live = verif::Ledger::get().live_count();
            if (live != model.size() + extra_live) bad("lifetime:live-elements", std::string(after) + ": " + std::to_string(live - extra_live) + " alive, " + std::to_string(model.size()) + " stored");
            if (verif::Ledger::get().errors) throw Stop();
        }
        if (verif::ArenaRegistry::get().errors) throw Stop();
    }
    size_t extra_live = 0;
    void op() {
        ++g_ops;
        int k = (int)rng.below(universe + 2) - 1;
        K key = Conv<K>::make(k);
        struct Extra { size_t& e; size_t n; Extra(size_t& x, size_t v) : e(x), n(v) { e += n; } ~Extra() { e -= n; } }
        extra(extra_live, std::is_same<K, Tracked>::value ? 1 : 0);
        bool present = model.count(k) != 0;
        if (model.empty()) verif::count("splay_ops_on_empty_tree");
        unsigned r = (unsigned)rng.below(100);
        if (r < 38) {
            bool res = t->insert(key);
            trace.push_back("insert(" + std::to_string(k) + ")");
            bool expect = Dup || !present;
            if (res != expect) bad("insert-result", "insert(" + std::to_string(k) + ") returned " + (res ? "true" : "false"));
            if (expect) model.insert(k);
            if (present) verif::count("splay_insert_equivalent_key");
            check("insert");
        }
        else if (r < 62) {
            bool res;
            if (present && rng.coin()) {
                const typename T::Node* n = t->find(key);
                if (!n || !equiv(Conv<K>::get(n->key), k)) bad("find", "find(" + std::to_string(k) + ") did not return a node with that key");
                res = t->erase(n);
                trace.push_back("erase(node " + std::to_string(k) + ")");
            }
            else {
                res = t->erase(key);
                trace.push_back("erase(" + std::to_string(k) + ")");
            }
            if (res != present) bad("erase-result", "erase(" + std::to_string(k) + ") returned " + (res ? "true" : "false"));
            if (present) { model.erase(model.find(k)); if (model.count(k)) verif::count("splay_erase_one_of_equivalent"); }
            check("erase");
        }
        else if (r < 77) {
            bool res = t->exists(key);
            trace.push_back("exists(" + std::to_string(k) + ")");
            if (res != present) bad("exists", "exists(" + std::to_string(k) + ") returned " + (res ? "true" : "false"));
            check("exists");
        }
        else if (r < 92) {
            const typename T::Node* n = t->find(key);
            trace.push_back("find(" + std::to_string(k) + ")");
            if (model.empty()) { if (n) bad("find", "node returned from an empty tree"); }
            else {
                if (!n) bad("find", "nullptr from a non-empty tree");
                int got = Conv<K>::get(n->key);
                if (present) { if (!equiv(got, k)) bad("find", "find(" + std::to_string(k) + ") returned key " + std::to_string(got) + " although the key is stored"); }
                else {
                    // a neighbour of k: the predecessor or the successor
                    auto ub = model.upper_bound(k);
                    bool ok = (ub != model.end() && equiv(*ub, got)) || (ub != model.begin() && equiv(*std::prev(ub), got));
                    if (!ok) bad("find", "find(" + std::to_string(k) + ") returned key " + std::to_string(got) + ", not a neighbour");
                }
            }
            check("find");
        }
        else {
            t->clear(); model.clear();
            trace.push_back("clear");
            check("clear");
            verif::count("splay_clear_then_reuse");
        }
    }
    void run() {
        verif::live_trace() = &trace;
        try {
            t.reset(rng.coin() ? new T(Cmp(), verif::ArenaAlloc<K>(1)) : new T(verif::ArenaAlloc<K>(1)));
            check("construct");
            size_t nops = rng.pick(std::vector<size_t>{ 20, 80, 300 });
            for (size_t i = 0; i < nops; ++i) op();
            if (rng.coin()) { t->clear(); model.clear(); trace.push_back("clear"); check("clear"); }
            t.reset(); model.clear();
            if (verif::ArenaRegistry::get().live_blocks()) bad("alloc:leak", "node blocks alive after destruction");
            if (std::is_same<K, Tracked>::value && verif::Ledger::get().live_count()) bad("lifetime:leak", "keys alive after destruction");
        }
        catch (Stop&) { t.reset(); }
        verif::ArenaRegistry::get().blocks.clear(); verif::ArenaRegistry::get().errors = 0;
        verif::Ledger::get().live.clear(); verif::Ledger::get().errors = 0;
        verif::cover("splay:" + tname() + ":universe=" + std::to_string(universe));
        verif::count("splay_histories");
        verif::live_trace() = nullptr;
    }
};

struct IntGreater { bool operator()(int a, int b) const { return a > b; } };

static void run_case(Rng& rng, uint64_t) {
    uint64_t o0 = g_ops;
    for (int r = 0; r < 12; ++r) {
        switch (rng.below(5)) {
        case 0: { LruDriver<int, int, false> d(rng); lru_run(d, rng); break; }
        case 1: { LruDriver<std::string, int, false> d(rng); lru_run(d, rng); break; }
        case 2: { LruDriver<int, Tracked, true> d(rng); lru_run(d, rng); break; }
        case 3: { LruDriver<std::string, std::string, true> d(rng); lru_run(d, rng); break; }
        default: { LruDriver<Tracked, int, true> d(rng); lru_run(d, rng); break; }
        }
        switch (rng.below(8)) {
        case 0: { SplayDriver<int, std::less<int>, std::less<int>, false> d(rng, "less"); d.run(); break; }
        case 1: { SplayDriver<int, std::less<int>, std::less<int>, true> d(rng, "less"); d.run(); break; }
        case 2: { SplayDriver<int, IntGreater, IntGreater, false> d(rng, "greater"); d.run(); break; }
        case 3: { SplayDriver<int, IntGreater, IntGreater, true> d(rng, "greater"); d.run(); break; }
        case 4: { SplayDriver<int, ModCmp, ModCmp, false> d(rng, "coarse"); d.run(); break; }
        case 5: { SplayDriver<int, ModCmp, ModCmp, true> d(rng, "coarse"); d.run(); break; }
        case 6: { SplayDriver<Tracked, TrackedGreater, IntGreater, false> d(rng, "greater"); d.run(); break; }
        default: { SplayDriver<Tracked, TrackedGreater, IntGreater, true> d(rng, "greater"); d.run(); break; }
        }
    }
    verif::count("operations", g_ops - o0);
}

static void init() {
    verif::property_id() = "C17";
    verif::Ledger::get().prop = "C17";
    verif::ArenaRegistry::get().prop = "C17";
    verif::ArenaRegistry::get().check_tracked = false;   // node storage is released right after ~Node()
    verif::death_extra() = verif::print_live_trace;
}
VERIF_MAIN_INIT(run_case, init)
