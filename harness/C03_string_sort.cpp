// C03: sequential string sorters. For every generated string multiset x representation
// x entry point x memory limit x with/without LCP the result must be
//   (a) a permutation of the original string OBJECTS (pointer identity for C strings
//       and owned pointers, offsets for suffixes, contents for std::string),
//   (b) in non-decreasing unsigned-byte lexicographic order (memcmp + length, written
//       here, not tlx's check_order()),
//   (c) lcp[i] == true LCP(s[i-1], s[i]) for every i >= 1; the slot behind lcp[n-1]
//       must be untouched (lcp[0] is unspecified by the API and not checked).
// Every C string lives in its own exact-size heap block so ASan sees over-reads.
#include <verif.hpp>
#include <strsort_common.hpp>

#include <cstring>
#include <memory>
#include <string>
#include <vector>

#include <tlx/sort/strings.hpp>
#include <tlx/sort/strings/insertion_sort.hpp>
#include <tlx/sort/strings/multikey_quicksort.hpp>
#include <tlx/sort/strings/radix_sort.hpp>
#include <tlx/sort/strings/string_ptr.hpp>
#include <tlx/sort/strings/string_set.hpp>

using verif::Rng;
using namespace strsort;
namespace ssd = tlx::sort_strings_detail;

enum Entry { E_PUBLIC = 0, E_INSERTION, E_MKQS, E_CE0, E_CE2, E_CE3, E_CI2, E_CI3, E_COUNT };
static const char* entry_name(int e) {
    static const char* n[] = { "sort_strings", "insertion_sort", "multikey_quicksort", "radixsort_CE0", "radixsort_CE2", "radixsort_CE3", "radixsort_CI2", "radixsort_CI3" };
    return n[e];
}

template <typename StrPtr>
static void run_detail(int entry, const StrPtr& sp, size_t memory) {
    switch (entry) {
    case E_INSERTION: ssd::insertion_sort(sp, 0, memory); break;
    case E_MKQS: ssd::multikey_quicksort(sp, 0, memory); break;
    case E_CE0: ssd::radixsort_CE0(sp, 0, memory); break;
    case E_CE2: ssd::radixsort_CE2(sp, 0, memory); break;
    case E_CE3: ssd::radixsort_CE3(sp, 0, memory); break;
    case E_CI2: ssd::radixsort_CI2(sp, 0, memory); break;
    default: ssd::radixsort_CI3(sp, 0, memory); break;
    }
}

static size_t pick_n(Rng& rng, bool big) {
    if (big) return rng.pick(std::vector<size_t>{ 65535, 65536, 65537, 70000, 140000 });
    static const size_t sizes[] = { 0, 1, 2, 3, 31, 32, 33, 40, 64, 100, 255, 256, 257, 500, 1000, 3000 };
    return rng.chance(1, 4) ? rng.below(80) : rng.pick(sizes);
}

static size_t pick_memory(Rng& rng, size_t n, size_t strsize, bool big) {
    switch (rng.below(8)) {
    case 0: case 1: return 0;
    case 2: return 1;
    case 3: return 1 + rng.below(30000);
    case 4: return 1u << 20 << rng.below(5);
    case 5: {
        // a limit that lets a radix sort start and then run out of step-stack budget a few levels down:
        // memory_use (k * n + small) + 3..7 times the size of one radix step (256 or 65536 counters)
        size_t k = rng.coin() ? strsize + rng.below(3) : 1 + rng.below(2);
        size_t S = (big && rng.coin()) ? 0x10000 * sizeof(size_t) + 64 : 0x100 * sizeof(size_t) + 40;
        return 32 + k * n + (3 + rng.below(5)) * S + rng.below(S);
    }
    default: {
        // around the memory_use terms of the five radix sorts: k * n + a slack-sized offset
        static const size_t ks[] = { 1, 2, 3, 8, 9, 10, 11, 16, 17, 32, 33, 34 };
        size_t k = rng.coin() ? rng.pick(ks) : strsize + rng.below(3);
        return 16 + k * n + rng.below(big && rng.coin() ? (1u << 22) : 20000) + 1;
    }
    }
}

/******************************************************************************/
// representations

template <typename CharT>
struct ReprChar {
    typedef tlx::sort_strings_detail::GenericCharStringSet<CharT> Set;
    typedef typename std::remove_const<CharT>::type MutChar;
    static std::string name() { return std::string(std::is_const<CharT>::value ? "const-" : "") + (std::is_same<MutChar, char>::value ? "char*" : "uchar*"); }
    static const bool has_public = true;
    // the guarantee for char* strings is that of the public API, which sorts them through the
    // unsigned char string set; a string set over (signed) char is not something tlx instantiates
    static const bool has_detail = std::is_unsigned<MutChar>::value;
    static size_t strsize() { return sizeof(CharT*); }

    static void run(Rng& rng, const std::vector<std::string>& in, int entry, bool with_lcp, size_t memory, Ctx& c) {
        size_t n = in.size();
        std::vector<std::unique_ptr<MutChar[]> > blocks(n);
        std::vector<CharT*> ptrs(n);
        for (size_t i = 0; i < n; ++i) {
            blocks[i].reset(new MutChar[in[i].size() + 1]);
            memcpy(blocks[i].get(), in[i].c_str(), in[i].size() + 1);
            ptrs[i] = blocks[i].get();
        }
        std::vector<CharT*> before = ptrs;
        std::vector<uint32_t> lcp(n + 1, CANARY);
        if (entry == E_PUBLIC) {
            bool vec = rng.coin();
            if (with_lcp) { if (vec) tlx::sort_strings_lcp(ptrs, lcp.data(), memory); else tlx::sort_strings_lcp(ptrs.data(), n, lcp.data(), memory); }
            else { if (vec) tlx::sort_strings(ptrs, memory); else tlx::sort_strings(ptrs.data(), n, memory); }
        }
        else if (with_lcp) run_detail(entry, ssd::StringLcpPtr<Set, uint32_t>(Set(ptrs.data(), ptrs.data() + n), lcp.data()), memory);
        else run_detail(entry, ssd::StringPtr<Set>(Set(ptrs.data(), ptrs.data() + n)), memory);
        // permutation of the pointer objects
        std::vector<CharT*> a = before, b = ptrs;
        std::sort(a.begin(), a.end()); std::sort(b.begin(), b.end());
        if (a != b) { bad(c, "not-a-permutation", "the multiset of string pointers changed (a pointer was duplicated or lost)"); return; }
        std::vector<std::pair<const unsigned char*, size_t> > out(n);
        for (size_t i = 0; i < n; ++i) out[i] = { reinterpret_cast<const unsigned char*>(ptrs[i]), strlen(reinterpret_cast<const char*>(ptrs[i])) };
        check_order_lcp(c, out, lcp.data(), with_lcp);
    }
};

struct ReprStd {
    typedef ssd::StdStringSet Set;
    static std::string name() { return "std::string"; }
    static const bool has_public = true, has_detail = true;
    static size_t strsize() { return sizeof(std::string); }
    static void run(Rng& rng, const std::vector<std::string>& in, int entry, bool with_lcp, size_t memory, Ctx& c) {
        size_t n = in.size();
        std::vector<std::string> arr = in;
        std::vector<uint32_t> lcp(n + 1, CANARY);
        if (entry == E_PUBLIC) {
            bool vec = rng.coin();
            if (with_lcp) { if (vec) tlx::sort_strings_lcp(arr, lcp.data(), memory); else tlx::sort_strings_lcp(arr.data(), n, lcp.data(), memory); }
            else { if (vec) tlx::sort_strings(arr, memory); else tlx::sort_strings(arr.data(), n, memory); }
        }
        else if (with_lcp) run_detail(entry, ssd::StringLcpPtr<Set, uint32_t>(Set(arr.data(), arr.data() + n), lcp.data()), memory);
        else run_detail(entry, ssd::StringPtr<Set>(Set(arr.data(), arr.data() + n)), memory);
        std::vector<std::string> a = in, b = arr;
        std::sort(a.begin(), a.end()); std::sort(b.begin(), b.end());
        if (a != b) { bad(c, "not-a-permutation", "the multiset of string values changed"); return; }
        std::vector<std::pair<const unsigned char*, size_t> > out(n);
        for (size_t i = 0; i < n; ++i) out[i] = { reinterpret_cast<const unsigned char*>(arr[i].data()), arr[i].size() };
        check_order_lcp(c, out, lcp.data(), with_lcp);
    }
};

struct ReprUPtr {
    typedef ssd::UPtrStdStringSet Set;
    static std::string name() { return "unique_ptr<string>"; }
    static const bool has_public = false, has_detail = true;
    static size_t strsize() { return sizeof(std::unique_ptr<std::string>); }
    static void run(Rng&, const std::vector<std::string>& in, int entry, bool with_lcp, size_t memory, Ctx& c) {
        size_t n = in.size();
        std::vector<std::unique_ptr<std::string> > arr(n);
        std::vector<const std::string*> before(n);
        for (size_t i = 0; i < n; ++i) { arr[i].reset(new std::string(in[i])); before[i] = arr[i].get(); }
        std::vector<uint32_t> lcp(n + 1, CANARY);
        if (with_lcp) run_detail(entry, ssd::StringLcpPtr<Set, uint32_t>(Set(arr.data(), arr.data() + n), lcp.data()), memory);
        else run_detail(entry, ssd::StringPtr<Set>(Set(arr.data(), arr.data() + n)), memory);
        std::vector<const std::string*> after(n);
        for (size_t i = 0; i < n; ++i) after[i] = arr[i].get();
        std::vector<const std::string*> a = before, b = after;
        std::sort(a.begin(), a.end()); std::sort(b.begin(), b.end());
        if (a != b) { bad(c, "not-a-permutation", "the multiset of owned string objects changed (an owner was lost, emptied or duplicated)"); return; }
        std::vector<std::pair<const unsigned char*, size_t> > out(n);
        for (size_t i = 0; i < n; ++i) out[i] = { reinterpret_cast<const unsigned char*>(arr[i]->data()), arr[i]->size() };
        check_order_lcp(c, out, lcp.data(), with_lcp);
    }
};

struct ReprSuffix {
    static std::string name() { return "suffix-set"; }
    static const bool has_public = false, has_detail = true;
    static size_t strsize() { return sizeof(size_t); }
    //! in[0] is the text
    static void run(Rng&, const std::vector<std::string>& in, int entry, bool with_lcp, size_t memory, Ctx& c) {
        const std::string& text = in[0];
        std::vector<size_t> sa;
        ssd::StringSuffixSet ss = ssd::StringSuffixSet::Initialize(text, sa);
        size_t n = sa.size();
        std::vector<uint32_t> lcp(n + 1, CANARY);
        if (with_lcp) run_detail(entry, ssd::StringLcpPtr<ssd::StringSuffixSet, uint32_t>(ss, lcp.data()), memory);
        else run_detail(entry, ssd::StringPtr<ssd::StringSuffixSet>(ss), memory);
        std::vector<size_t> b = sa;
        std::sort(b.begin(), b.end());
        for (size_t i = 0; i < n; ++i) if (b[i] != i) { bad(c, "not-a-permutation", "the suffix offsets are no longer 0..n-1"); return; }
        std::vector<std::pair<const unsigned char*, size_t> > out(n);
        for (size_t i = 0; i < n; ++i) out[i] = { reinterpret_cast<const unsigned char*>(text.data()) + sa[i], text.size() - sa[i] };
        check_order_lcp(c, out, lcp.data(), with_lcp);
    }
};

/******************************************************************************/

static const char* mem_class(size_t m) { return m == 0 ? "mem=0" : m == 1 ? "mem=1" : m < 30001 ? "mem=small" : m < (1u << 20) ? "mem=medium" : "mem=large"; }
static const char* n_class(size_t n) { return n < 32 ? "n<32" : n < 256 ? "n<256" : n < 65536 ? "n<65536" : "n>=65536"; }

template <typename Repr>
static void one_sort(Rng& rng, const std::vector<std::string>& in, const char* shape, bool big) {
    int entry;
    do { entry = (int)rng.below(E_COUNT); } while ((entry == E_PUBLIC && !Repr::has_public));
    if (!Repr::has_detail) entry = E_PUBLIC;
    size_t n = std::is_same<Repr, ReprSuffix>::value ? in[0].size() : in.size();
    if (entry == E_INSERTION && n > 1500) entry = E_CE3;
    if (big && entry == E_MKQS && rng.chance(2, 3)) entry = E_CI3;
    bool with_lcp = rng.coin();
    size_t memory = pick_memory(rng, n, Repr::strsize(), big);
    Ctx c;
    c.repr = Repr::name();
    c.entry = std::string(entry_name(entry)) + (with_lcp ? "_lcp" : "");
    c.what = c.entry + " on " + std::to_string(n) + " x " + c.repr + ", shape " + shape + ", memory " + std::to_string(memory);
    verif::context() = entry_name(entry);
    Repr::run(rng, in, entry, with_lcp, memory, c);
    verif::count("sorts");
    verif::count_max("n", n);
    if (memory) verif::count("sorts_with_memory_limit");
    if (with_lcp) verif::count("sorts_with_lcp");
    if (n >= 65536) verif::count("sorts_n_ge_65536");
    verif::cover(c.entry + ":" + c.repr + ":" + mem_class(memory) + ":" + n_class(n) + ":" + shape);
    if (verif::want_sample(3)) verif::sample(c.what);
}

static void run_case(Rng& rng, uint64_t) {
    bool big = verif::param_int("big", 0) != 0;
    int rounds = big ? 2 : 40;
    for (int r = 0; r < rounds; ++r) {
        int shape = (int)rng.below(SHAPES);
        if (big && rng.coin()) shape = 2;   // shared prefixes: the shapes that nest 16-bit radix steps
        size_t n = pick_n(rng, big);
        std::vector<std::string> in = gen_strings(rng, n, shape, big);
        switch (rng.below(big ? 6 : 8)) {
        case 0: one_sort<ReprChar<unsigned char> >(rng, in, shape_name(shape), big); break;
        case 1: one_sort<ReprChar<const char> >(rng, in, shape_name(shape), big); break;
        case 2: one_sort<ReprChar<char> >(rng, in, shape_name(shape), big); break;
        case 3: one_sort<ReprChar<const unsigned char> >(rng, in, shape_name(shape), big); break;
        case 4: case 5: one_sort<ReprStd>(rng, in, shape_name(shape), big); break;
        case 6: one_sort<ReprUPtr>(rng, in, shape_name(shape), big); break;
        default: {
            // suffixes of a text over a 1..3 letter alphabet (very long LCPs)
            size_t tn = rng.pick(std::vector<size_t>{ 0, 1, 2, 31, 32, 33, 100, 300, 1000 });
            unsigned a = 1 + (unsigned)rng.below(3);
            std::vector<std::string> text{ rnd_str(rng, tn, 'a', 'a' + a - 1) };
            one_sort<ReprSuffix>(rng, text, a == 1 ? "suffixes-1-letter" : a == 2 ? "suffixes-2-letters" : "suffixes-3-letters", false);
            break;
        }
        }
    }
}

static void init() { verif::property_id() = "C03"; }
VERIF_MAIN_INIT(run_case, init)
