// C04: parallel super scalar string sample sort. The unmodified sorter (and the
// ThreadPool under it) is compiled against the dsched shims:
//   mode=serial  controlled schedules: every mutex / condition variable / atomic operation
//                of the job graph (sub-step counters, pwork_, pool counters) is a seeded
//                scheduling decision; deadlock = no runnable thread. Run plain and under
//                ASan, which sees any use of a sort step after it deleted itself.
//   mode=jitter  real threads with injected delays, under TSan and ASan.
// The worker count comes from the shimmed hardware_concurrency(). Parameter sets derived
// from PS5ParametersDefault shrink the thresholds and the splitter tree so that the
// sample -> count -> distribute chain, sequential sample sort, multikey quicksort, insertion
// sort and work sharing are all reached with 30..5000 strings; big=1 runs the public
// sort_strings_parallel[_lcp] entry points with default parameters above 2^20 strings.
// Output oracle as in C03: identity permutation, memcmp order, exact LCPs, canary.
#include <verif.hpp>
#include <strsort_common.hpp>

#include <memory>

#include <tlx/sort/strings_parallel.hpp>
#include <tlx/sort/strings/parallel_sample_sort.hpp>

using verif::Rng;
using namespace strsort;
namespace ssd = tlx::sort_strings_detail;

static bool g_serial = true;
static std::string g_scenario;
static void print_scenario() { fprintf(stderr, "scenario: %s\n", g_scenario.c_str()); }

template <size_t SST, size_t IST, unsigned TB, int CLS, bool WS, bool RS, typename KT>
struct Params : public ssd::PS5ParametersDefault {
    static const bool enable_work_sharing = WS;
    static const bool enable_rest_size = RS;
    typedef KT key_type;
    static const unsigned TreeBits = TB;
    // the two tree classifiers tlx itself instantiates (default and the one of its own test)
    using Classify = typename std::conditional<CLS == 0, ssd::SSClassifyTreeCalcUnrollInterleave<KT, TB>,
                                               ssd::SSClassifyTreeUnrollInterleave<KT, TB> >::type;
    static const size_t smallsort_threshold = SST;
    static const size_t inssort_threshold = IST;
    static std::string name() {
        return "P<smallsort=" + std::to_string(SST) + ",inssort=" + std::to_string(IST) + ",treebits=" + std::to_string(TB) + ",classify=" + std::to_string(CLS) + (WS ? ",work-sharing" : "") + (RS ? ",rest-size" : "") + ",key" + std::to_string(8 * sizeof(KT)) + ">";
    }
};

struct DefaultTag { static std::string name() { return "default-parameters"; } };

template <typename P, typename SP> struct Runner { static void run(const SP& sp) { ssd::parallel_sample_sort_params<P>(sp, 0, 0); } };
template <typename SP> struct Runner<DefaultTag, SP> { static void run(const SP& sp) { ssd::parallel_sample_sort(sp, 0, 0); } };

template <typename P>
static void sort_one(Rng& rng, const std::vector<std::string>& in, const char* shape, unsigned workers, bool with_lcp, int repr, bool public_api) {
    size_t n = in.size();
    Ctx c;
    c.repr = repr == 0 ? "uchar*" : "std::string";
    c.entry = std::string(public_api ? "sort_strings_parallel" : "parallel_sample_sort") + (with_lcp ? "_lcp" : "");
    c.what = c.entry + " " + P::name() + " on " + std::to_string(n) + " x " + c.repr + ", shape " + shape + ", " + std::to_string(workers) + " worker(s)";
    g_scenario = c.what;
    verif::context() = with_lcp ? "parallel_sample_sort_lcp" : "parallel_sample_sort";
    dsched::Sched& S = dsched::S();
    S.hw_threads = workers;
    S.context = with_lcp ? "parallel_sample_sort_lcp" : "parallel_sample_sort";
    std::vector<uint32_t> lcp(n + 1, CANARY);
    std::vector<std::pair<const unsigned char*, size_t> > out(n);
    dsched::Stats st;
    const unsigned front = (unsigned)rng.below(8);   // which public front end (if public_api)
    if (public_api) c.what += ", front end #" + std::to_string(front);
    if (repr == 0) {
        typedef ssd::UCharStringSet Set;
        std::vector<std::unique_ptr<unsigned char[]> > blocks(n);
        std::vector<unsigned char*> ptrs(n);
        for (size_t i = 0; i < n; ++i) {
            blocks[i].reset(new unsigned char[in[i].size() + 1]);
            memcpy(blocks[i].get(), in[i].c_str(), in[i].size() + 1);
            ptrs[i] = blocks[i].get();
        }
        std::vector<unsigned char*> before = ptrs;
        S.begin(rng.next(), (int)rng.below(dsched::STRATEGIES));
        if (public_api) {
            // all eight pointer front ends denote the same sort (unsigned byte order whatever the char type)
            static const char* FRONT[8] = { "unsigned char**", "char**", "const unsigned char**", "const char**", "vector<char*>",
                                            "vector<unsigned char*>", "vector<const char*>", "vector<const unsigned char*>" };
            verif::cover(std::string("front-end:") + FRONT[front] + (with_lcp ? ":lcp" : ":nolcp"));
            uint32_t* L = lcp.data();
            switch (front) {
            case 0: if (with_lcp) tlx::sort_strings_parallel_lcp(ptrs.data(), n, L); else tlx::sort_strings_parallel(ptrs.data(), n); break;
            case 1: { char** q = reinterpret_cast<char**>(ptrs.data()); if (with_lcp) tlx::sort_strings_parallel_lcp(q, n, L); else tlx::sort_strings_parallel(q, n); break; }
            case 2: { const unsigned char** q = const_cast<const unsigned char**>(ptrs.data()); if (with_lcp) tlx::sort_strings_parallel_lcp(q, n, L); else tlx::sort_strings_parallel(q, n); break; }
            case 3: { const char** q = (const char**)ptrs.data(); if (with_lcp) tlx::sort_strings_parallel_lcp(q, n, L); else tlx::sort_strings_parallel(q, n); break; }
            case 4: { std::vector<char*> v(n); for (size_t i = 0; i < n; ++i) v[i] = reinterpret_cast<char*>(ptrs[i]);
                      if (with_lcp) tlx::sort_strings_parallel_lcp(v, L); else tlx::sort_strings_parallel(v);
                      for (size_t i = 0; i < n; ++i) ptrs[i] = reinterpret_cast<unsigned char*>(v[i]); break; }
            case 5: if (with_lcp) tlx::sort_strings_parallel_lcp(ptrs, L); else tlx::sort_strings_parallel(ptrs); break;
            case 6: { std::vector<const char*> v(n); for (size_t i = 0; i < n; ++i) v[i] = reinterpret_cast<const char*>(ptrs[i]);
                      if (with_lcp) tlx::sort_strings_parallel_lcp(v, L); else tlx::sort_strings_parallel(v);
                      for (size_t i = 0; i < n; ++i) ptrs[i] = reinterpret_cast<unsigned char*>(const_cast<char*>(v[i])); break; }
            default: { std::vector<const unsigned char*> v(ptrs.begin(), ptrs.end());
                      if (with_lcp) tlx::sort_strings_parallel_lcp(v, L); else tlx::sort_strings_parallel(v);
                      for (size_t i = 0; i < n; ++i) ptrs[i] = const_cast<unsigned char*>(v[i]); break; }
            }
        }
        else if (with_lcp) Runner<P, ssd::StringLcpPtr<Set, uint32_t> >::run(ssd::StringLcpPtr<Set, uint32_t>(Set(ptrs.data(), ptrs.data() + n), lcp.data()));
        else Runner<P, ssd::StringPtr<Set> >::run(ssd::StringPtr<Set>(Set(ptrs.data(), ptrs.data() + n)));
        st = S.end();
        std::vector<unsigned char*> a = before, b = ptrs;
        std::sort(a.begin(), a.end()); std::sort(b.begin(), b.end());
        if (a != b) bad(c, "not-a-permutation", "the multiset of string pointers changed (a pointer was duplicated or lost)");
        else {
            for (size_t i = 0; i < n; ++i) out[i] = { ptrs[i], strlen(reinterpret_cast<const char*>(ptrs[i])) };
            check_order_lcp(c, out, lcp.data(), with_lcp);
        }
    }
    else {
        typedef ssd::StdStringSet Set;
        std::vector<std::string> arr = in;
        S.begin(rng.next(), (int)rng.below(dsched::STRATEGIES));
        if (public_api) {
            verif::cover(std::string("front-end:") + (front & 1 ? "vector<std::string>" : "std::string*") + (with_lcp ? ":lcp" : ":nolcp"));
            if (front & 1) { if (with_lcp) tlx::sort_strings_parallel_lcp(arr, lcp.data()); else tlx::sort_strings_parallel(arr); }
            else { if (with_lcp) tlx::sort_strings_parallel_lcp(arr.data(), n, lcp.data()); else tlx::sort_strings_parallel(arr.data(), n); }
        }
        else if (with_lcp) Runner<P, ssd::StringLcpPtr<Set, uint32_t> >::run(ssd::StringLcpPtr<Set, uint32_t>(Set(arr.data(), arr.data() + n), lcp.data()));
        else Runner<P, ssd::StringPtr<Set> >::run(ssd::StringPtr<Set>(Set(arr.data(), arr.data() + n)));
        st = S.end();
        std::vector<std::string> a = in, b = arr;
        std::sort(a.begin(), a.end()); std::sort(b.begin(), b.end());
        if (a != b) bad(c, "not-a-permutation", "the multiset of string values changed");
        else {
            for (size_t i = 0; i < n; ++i) out[i] = { reinterpret_cast<const unsigned char*>(arr[i].data()), arr[i].size() };
            check_order_lcp(c, out, lcp.data(), with_lcp);
        }
    }
    verif::count("sorts");
    if (with_lcp) verif::count("sorts_with_lcp");
    if (st.threads > 2) verif::count("sorts_with_more_than_one_worker");
    if (g_serial) { verif::distinct(st.hash); verif::count("schedule_steps", st.steps); verif::count("controlled_schedules"); verif::count_max("schedule_steps", st.steps); }
    verif::count_max("n", n);
    std::string nc = n < 64 ? "n<64" : n < 1000 ? "n<1000" : n < 100000 ? "n<100000" : "n>=2^20";
    verif::cover(P::name() + ":" + c.repr + (with_lcp ? ":lcp" : ":nolcp") + ":workers=" + std::to_string(workers > 4 ? 5 : workers) + ":" + nc + ":" + shape);
    if (verif::want_sample(3)) verif::sample(c.what);
}

#ifndef VERIF_PART
#define VERIF_PART 0
#endif
typedef Params<16, 4, 3, 0, true, false, size_t> P0;          // tiny everything
typedef Params<64, 8, 2, 0, true, true, size_t> P1;           // rest-size accounting on
typedef Params<2, 2, 3, 1, true, false, uint32_t> P2;         // every sub-bucket becomes a job; 32-bit keys
typedef Params<128, 32, 5, 1, false, false, size_t> P3;       // no work sharing
typedef Params<1024, 32, 10, 0, true, false, size_t> P4;      // default tree, small threshold
typedef Params<32, 2, 4, 1, true, true, uint32_t> P5;

static void run_case(Rng& rng, uint64_t) {
    bool big = verif::param_int("big", 0) != 0;
    if (big) {
        // public entry points, default parameters, above the 2^20 threshold of the parallel step
        size_t n = rng.pick(std::vector<size_t>{ (1u << 20) + 1000, 1200000, 2100000 });
        int shape = (int)rng.pick(std::vector<int>{ 0, 1, 2, 6, 9 });
        std::vector<std::string> in = gen_strings(rng, n, shape, true);
        sort_one<DefaultTag>(rng, in, shape_name(shape), (unsigned)rng.pick(std::vector<unsigned>{ 2, 3, 4, 8 }), rng.coin(), 0, true);
        return;
    }
    for (int r = 0; r < 12; ++r) {
        int shape = (int)rng.below(SHAPES);
        size_t n = rng.chance(1, 5) ? rng.below(40) : rng.pick(std::vector<size_t>{ 50, 120, 300, 700, 1500, 5000 });
        if (g_serial && n > 1500 && rng.coin()) n = 700;
        std::vector<std::string> in = gen_strings(rng, n, shape, false);
        unsigned workers = (unsigned)rng.pick(std::vector<unsigned>{ 1, 2, 2, 3, 3, 4, 8, 16 });
        if (g_serial && workers > 4) workers = 4;
        bool with_lcp = rng.coin();
        int repr = rng.chance(1, 3) ? 1 : 0;
        // the harness is compiled as three units (VERIF_PART) so the parameter sets build in parallel
#if VERIF_PART == 0
        switch (rng.below(3)) {
        case 0: sort_one<P0>(rng, in, shape_name(shape), workers, with_lcp, repr, false); break;
        case 1: sort_one<P1>(rng, in, shape_name(shape), workers, with_lcp, repr, false); break;
        default: sort_one<DefaultTag>(rng, in, shape_name(shape), workers, with_lcp, repr, rng.coin()); break;
        }
#elif VERIF_PART == 1
        if (rng.coin()) sort_one<P2>(rng, in, shape_name(shape), workers, with_lcp, repr, false);
        else sort_one<P3>(rng, in, shape_name(shape), workers, with_lcp, repr, false);
#else
        if (rng.coin()) sort_one<P4>(rng, in, shape_name(shape), workers, with_lcp, repr, false);
        else sort_one<P5>(rng, in, shape_name(shape), workers, with_lcp, repr, false);
#endif
        if (verif::case_failed()) break;
    }
}

static void init() {
    verif::property_id() = "C04";
    strsort::prop() = "C04";
    g_serial = verif::param("mode", "serial") == "serial";
    dsched::S().mode = g_serial ? dsched::SERIAL : dsched::JITTER;
    dsched::S().prop = "C04";
    dsched::S().on_deadlock = print_scenario;
}
VERIF_MAIN_INIT(run_case, init)
