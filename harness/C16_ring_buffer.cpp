// C16: RingBuffer vs a bounded deque model + exact element lifetimes; SimpleVector
// lifetimes. Elements are Tracked (heap-owning, ledger-registered): after every
// operation  ledger.live == number of stored elements  and every stored element
// is alive and holds the model's value.
#include <verif.hpp>
#include <tracked.hpp>

#include <deque>
#include <string>

#include <tlx/container/ring_buffer.hpp>
#include <tlx/container/simple_vector.hpp>

using verif::Rng;
using verif::Tracked;

static uint64_t g_ops = 0;

template <typename E> struct Elem;
template <> struct Elem<Tracked> {
    static Tracked make(int v) { return Tracked(v, v ^ 0x55); }
    static bool ok(const Tracked& e, int v) { return e.key == v && e.payload == (v ^ 0x55) && *e.heap == v; }
    static int get(const Tracked& e) { return e.key; }
    static const char* name() { return "Tracked"; }
    static const bool tracked = true;
};
template <> struct Elem<int> {
    static int make(int v) { return v; }
    static bool ok(const int& e, int v) { return e == v; }
    static int get(const int& e) { return e; }
    static const char* name() { return "int"; }
    static const bool tracked = false;
};
template <> struct Elem<std::string> {
    static std::string make(int v) { return "element-" + std::to_string(v) + "-long-enough-for-the-heap"; }
    static bool ok(const std::string& e, int v) { return e == make(v); }
    static int get(const std::string& e) { return atoi(e.c_str() + 8); }
    static const char* name() { return "string"; }
    static const bool tracked = false;
};

struct Stop {};

template <typename E>
struct RingDriver {
    typedef tlx::RingBuffer<E, verif::ArenaAlloc<E> > RB;
    struct Slot {
        std::unique_ptr<RB> rb;
        std::deque<int> m;
        size_t cap = 0;
        bool allocated = false;
    };
    Slot s[2];
    Rng& rng;
    std::vector<std::string> trace;
    int next_val = 1;
    uint64_t wraps_front = 0, wraps_back = 0;
    explicit RingDriver(Rng& r) : rng(r) {}

    void bad(const std::string& what, const std::string& detail) {
        std::string tr;
        size_t from = trace.size() > 30 ? trace.size() - 30 : 0;
        for (size_t i = from; i < trace.size(); ++i) tr += trace[i] + "; ";
        verif::fail(std::string("C16:RingBuffer:") + what, std::string("RingBuffer<") + Elem<E>::name() + "> " + what + ": " + detail + " | ops: " + tr);
        throw Stop();
    }

    void check(const char* after) {
        size_t stored = 0;
        for (int w = 0; w < 2; ++w) {
            if (!s[w].rb) continue;
            RB& rb = *s[w].rb;
            const RB& crb = rb;
            auto& m = s[w].m;
            if (rb.size() != m.size()) bad("size", std::string(after) + ": tlx " + std::to_string(rb.size()) + " model " + std::to_string(m.size()));
            if (rb.empty() != m.empty()) bad("empty", after);
            if (s[w].allocated && rb.max_size() != s[w].cap) bad("max_size", after);
            for (size_t i = 0; i < m.size(); ++i) {
                if (!Elem<E>::ok(rb[i], m[i])) bad("operator[]", std::string(after) + ": index " + std::to_string(i) + " holds " + std::to_string(Elem<E>::get(rb[i])) + ", model " + std::to_string(m[i]));
                if (!Elem<E>::ok(crb[i], m[i])) bad("operator[]-const", after);
            }
            if (!m.empty()) {
                if (!Elem<E>::ok(rb.front(), m.front())) bad("front", std::string(after) + ": " + std::to_string(Elem<E>::get(rb.front())) + " vs " + std::to_string(m.front()));
                if (!Elem<E>::ok(rb.back(), m.back())) bad("back", std::string(after) + ": " + std::to_string(Elem<E>::get(rb.back())) + " vs " + std::to_string(m.back()));
                if (!Elem<E>::ok(crb.front(), m.front()) || !Elem<E>::ok(crb.back(), m.back())) bad("front/back-const", after);
            }
            stored += m.size();
        }
        if (Elem<E>::tracked) {
            size_t live = verif::Ledger::get().live_count();
            if (live != stored) bad("lifetime:live-elements", std::string(after) + ": " + std::to_string(live) + " element objects alive, " + std::to_string(stored) + " stored");
            if (verif::Ledger::get().errors) throw Stop();
        }
        if (verif::ArenaRegistry::get().errors) throw Stop();
    }

    void fresh(int w, bool with_cap) {
        s[w].rb.reset();
        s[w].m.clear();
        if (with_cap) {
            size_t cap = rng.pick(std::vector<size_t>{ 0, 1, 2, 3, 4, 5, 6, 7, 8, 9, 15, 16, 17 });
            s[w].rb.reset(new RB(cap, verif::ArenaAlloc<E>(w + 1)));
            s[w].cap = cap; s[w].allocated = true;
            trace.push_back("rb" + std::to_string(w) + " = RingBuffer(" + std::to_string(cap) + ")");
        }
        else {
            s[w].rb.reset(new RB(verif::ArenaAlloc<E>(w + 1)));
            s[w].cap = 0; s[w].allocated = false;
            trace.push_back("rb" + std::to_string(w) + " = RingBuffer()");
        }
    }

    void op() {
        int w = rng.chance(3, 4) ? 0 : 1, o = 1 - w;
        Slot& S = s[w];
        RB& rb = *S.rb;
        ++g_ops;
        std::string id = "rb" + std::to_string(w);
        unsigned r = (unsigned)rng.below(100);
        bool can_push = S.allocated && S.m.size() < S.cap;
        if (r < 40) {
            if (!can_push) return;
            int v = next_val++;
            switch (rng.below(6)) {
            case 0: { E e = Elem<E>::make(v); rb.push_back(e); S.m.push_back(v); trace.push_back(id + ".push_back(" + std::to_string(v) + ")"); break; }
            case 1: rb.push_back(Elem<E>::make(v)); S.m.push_back(v); trace.push_back(id + ".push_back(&&" + std::to_string(v) + ")"); break;
            case 2: { E e = Elem<E>::make(v); rb.emplace_back(e); S.m.push_back(v); trace.push_back(id + ".emplace_back(" + std::to_string(v) + ")"); break; }
            case 3: { E e = Elem<E>::make(v); rb.push_front(e); S.m.push_front(v); trace.push_back(id + ".push_front(" + std::to_string(v) + ")"); break; }
            case 4: rb.push_front(Elem<E>::make(v)); S.m.push_front(v); trace.push_back(id + ".push_front(&&" + std::to_string(v) + ")"); break;
            default: { E e = Elem<E>::make(v); rb.emplace_front(e); S.m.push_front(v); trace.push_back(id + ".emplace_front(" + std::to_string(v) + ")"); break; }
            }
            check("push");
        }
        else if (r < 70) {
            if (S.m.empty()) return;
            if (rng.coin()) { rb.pop_front(); S.m.pop_front(); trace.push_back(id + ".pop_front()"); check("pop_front"); verif::count("pop_front"); }
            else { rb.pop_back(); S.m.pop_back(); trace.push_back(id + ".pop_back()"); check("pop_back"); verif::count("pop_back"); }
        }
        else if (r < 74) { rb.clear(); S.m.clear(); trace.push_back(id + ".clear()"); check("clear"); }
        else if (r < 79) {   // copy construct other from this
            trace.push_back("rb" + std::to_string(o) + " = copy of " + id);
            s[o].rb.reset(); s[o].m.clear();
            check("destroy");
            s[o].rb.reset(new RB(rb));
            s[o].m = S.m; s[o].cap = S.cap; s[o].allocated = S.allocated;
            check("copy-construct");
        }
        else if (r < 84) {   // copy assign (same or different capacity), also self
            if (rng.chance(1, 5)) { RB& self = rb; rb = self; trace.push_back(id + " = " + id); check("self-assign"); return; }
            trace.push_back("rb" + std::to_string(o) + " (cap " + std::to_string(s[o].cap) + ") = " + id + " (cap " + std::to_string(S.cap) + ")");
            *s[o].rb = rb;
            s[o].m = S.m; s[o].cap = S.cap; s[o].allocated = S.allocated;
            check("copy-assign");
        }
        else if (r < 88) {   // move construct other from this; this is then re-allocated
            trace.push_back("rb" + std::to_string(o) + " = move of " + id);
            s[o].rb.reset(); s[o].m.clear();
            s[o].rb.reset(new RB(std::move(rb)));
            s[o].m = S.m; s[o].cap = S.cap; s[o].allocated = S.allocated;
            S.m.clear(); S.allocated = false; S.cap = 0;
            check("move-construct");
        }
        else if (r < 92) {   // move assign
            trace.push_back("rb" + std::to_string(o) + " = std::move(" + id + ")");
            *s[o].rb = std::move(rb);
            s[o].m = S.m; s[o].cap = S.cap; s[o].allocated = S.allocated;
            S.m.clear(); S.allocated = false; S.cap = 0;
            check("move-assign");
        }
        else if (r < 95) {   // copy_to / move_to
            std::vector<E> out;
            if (rng.coin()) {
                rb.copy_to(&out); trace.push_back(id + ".copy_to()");
                if (out.size() != S.m.size()) bad("copy_to", "length");
                for (size_t i = 0; i < out.size(); ++i) if (!Elem<E>::ok(out[i], S.m[i])) bad("copy_to", "element " + std::to_string(i));
            }
            else {
                rb.move_to(&out); trace.push_back(id + ".move_to()");
                if (out.size() != S.m.size()) bad("move_to", "length");
                for (size_t i = 0; i < out.size(); ++i) if (!Elem<E>::ok(out[i], S.m[i])) bad("move_to", "element " + std::to_string(i));
                S.m.clear();
            }
            out.clear();
            check("copy_to/move_to");
        }
        else if (r < 99) {   // deallocate + allocate(m), m smaller / larger
            // always through deallocate(): a copy of an unallocated buffer may hold a zero-size block
            rb.deallocate(); S.m.clear(); S.allocated = false; trace.push_back(id + ".deallocate()"); check("deallocate");
            if (rng.chance(4, 5)) {
                size_t cap = rng.pick(std::vector<size_t>{ 0, 1, 2, 3, 4, 5, 7, 8, 9, 16 });
                rb.allocate(cap); S.cap = cap; S.allocated = true;
                trace.push_back(id + ".allocate(" + std::to_string(cap) + ")");
                check("allocate");
                verif::count("deallocate_allocate");
            }
        }
        else fresh(w, rng.chance(3, 4));
    }

    void run() {
        try {
            fresh(0, true); fresh(1, rng.coin());
            size_t nops = rng.pick(std::vector<size_t>{ 40, 150, 600 });
            for (size_t i = 0; i < nops; ++i) op();
            s[0].rb.reset(); s[1].rb.reset(); s[0].m.clear(); s[1].m.clear();
            check("destruction");
        }
        catch (Stop&) {
            s[0].rb.reset(); s[1].rb.reset();
        }
        size_t lb = verif::ArenaRegistry::get().live_blocks();
        if (lb && !verif::case_failed()) verif::fail("C16:RingBuffer:alloc:leak", std::to_string(lb) + " block(s) never returned");
        if (Elem<E>::tracked && verif::Ledger::get().live_count() && !verif::case_failed())
            verif::fail("C16:RingBuffer:lifetime:leak", std::to_string(verif::Ledger::get().live_count()) + " element(s) alive after destruction");
        verif::ArenaRegistry::get().blocks.clear(); verif::ArenaRegistry::get().errors = 0;
        verif::Ledger::get().live.clear(); verif::Ledger::get().errors = 0;
        verif::cover(std::string("ring:") + Elem<E>::name() + ":cap0=" + std::to_string(s[0].cap));
        verif::count("ring_histories");
        if (verif::want_sample(2)) {
            std::string t;
            for (size_t i = 0; i < trace.size() && i < 16; ++i) t += trace[i] + "; ";
            verif::sample(std::string("RingBuffer<") + Elem<E>::name() + ">: " + t + "...");
        }
    }
};

/******************************************************************************/

static void simple_vector_case(Rng& rng) {
    typedef tlx::SimpleVector<Tracked> SV;
    struct S { std::unique_ptr<SV> v; std::vector<int> m; };
    S s[2];
    std::vector<std::string> trace;
    auto bad = [&](const std::string& what, const std::string& d) {
        std::string tr; for (auto& t : trace) tr += t + "; ";
        verif::fail("C16:SimpleVector:" + what, what + ": " + d + " | ops: " + tr);
        throw Stop();
    };
    auto check = [&](const char* after) {
        size_t stored = 0;
        for (int w = 0; w < 2; ++w) {
            if (!s[w].v) continue;
            SV& v = *s[w].v;
            if (v.size() != s[w].m.size()) bad("size", after);
            for (size_t i = 0; i < v.size(); ++i)
                if (v[i].key != s[w].m[i] || *v[i].heap != s[w].m[i]) bad("element", std::string(after) + ": index " + std::to_string(i) + " holds " + std::to_string(v[i].key) + ", model " + std::to_string(s[w].m[i]));
            if (v.size()) { if (&v.front() != v.data() || &v.back() != v.data() + v.size() - 1 || v.end() - v.begin() != (long)v.size()) bad("accessors", after); }
            stored += v.size();
        }
        size_t live = verif::Ledger::get().live_count();
        if (live != stored) bad("lifetime:live-elements", std::string(after) + ": " + std::to_string(live) + " alive, " + std::to_string(stored) + " stored");
        if (verif::Ledger::get().errors) throw Stop();
    };
    int next = 1;
    try {
        for (int w = 0; w < 2; ++w) { size_t n = rng.below(7); s[w].v.reset(new SV(n)); s[w].m.assign(n, 0); trace.push_back("v" + std::to_string(w) + "(" + std::to_string(n) + ")"); }
        check("construct");
        size_t nops = 10 + rng.below(60);
        for (size_t k = 0; k < nops; ++k) {
            int w = (int)rng.below(2), o = 1 - w;
            SV& v = *s[w].v;
            ++g_ops;
            switch (rng.below(8)) {
            case 0: case 1: if (v.size()) { size_t i = rng.below(v.size()); int x = next++; v[i] = Tracked(x, 0); s[w].m[i] = x; trace.push_back("v" + std::to_string(w) + "[" + std::to_string(i) + "]=" + std::to_string(x)); } break;
            case 2: { size_t n = rng.below(9); trace.push_back("v" + std::to_string(w) + ".resize(" + std::to_string(n) + ")"); v.resize(n); s[w].m.resize(n, 0); break; }
            case 3: trace.push_back("swap"); if (rng.coin()) v.swap(*s[o].v); else std::swap(v, *s[o].v); s[w].m.swap(s[o].m); break;
            case 4: trace.push_back("v" + std::to_string(o) + " = std::move(v" + std::to_string(w) + ")"); *s[o].v = std::move(v); s[o].m = s[w].m; s[w].m.clear(); break;
            case 5: trace.push_back("v" + std::to_string(o) + " = SV(std::move(v" + std::to_string(w) + "))"); s[o].v.reset(); s[o].v.reset(new SV(std::move(v))); s[o].m = s[w].m; s[w].m.clear(); break;
            case 6: trace.push_back("v" + std::to_string(w) + ".destroy()"); v.destroy(); s[w].m.clear(); break;
            default: { int x = next++; trace.push_back("v" + std::to_string(w) + ".fill(" + std::to_string(x) + ")"); v.fill(Tracked(x, 0)); for (auto& y : s[w].m) y = x; break; }
            }
            check(trace.back().c_str());
        }
        s[0].v.reset(); s[1].v.reset(); s[0].m.clear(); s[1].m.clear();
        check("destruction");
    }
    catch (Stop&) { s[0].v.reset(); s[1].v.reset(); }
    verif::Ledger::get().live.clear(); verif::Ledger::get().errors = 0;
    verif::cover("simple_vector:Normal:Tracked");
    verif::count("simple_vector_histories");

    // NoInit modes with a trivially destructible type, as documented: values survive resize/move
    {
        tlx::SimpleVector<int, tlx::SimpleVectorMode::NoInitNoDestroy> a(5);
        tlx::SimpleVector<int, tlx::SimpleVectorMode::NoInitButDestroy> b(5);
        for (int i = 0; i < 5; ++i) a[i] = b[i] = i + 10;
        size_t n = 1 + rng.below(9);
        a.resize(n); b.resize(n);
        for (size_t i = 0; i < std::min<size_t>(n, 5); ++i)
            if (a[i] != (int)i + 10 || b[i] != (int)i + 10) verif::fail("C16:SimpleVector:NoInit:resize", "value lost");
        decltype(a) a2(std::move(a));
        if (a2.size() != n || a.size() != 0) verif::fail("C16:SimpleVector:NoInit:move", "size");
        verif::cover("simple_vector:NoInit:int");
    }
}

static void run_case(Rng& rng, uint64_t) {
    uint64_t o0 = g_ops;
    for (int r = 0; r < 10; ++r) {
        { RingDriver<Tracked> d(rng); d.run(); }
        if (r % 3 == 0) { RingDriver<int> d(rng); d.run(); }
        if (r % 3 == 1) { RingDriver<std::string> d(rng); d.run(); }
        simple_vector_case(rng);
    }
    verif::count("operations", g_ops - o0);
}

static void init() {
    verif::property_id() = "C16";
    verif::Ledger::get().prop = "C16";
    verif::ArenaRegistry::get().prop = "C16";
}
VERIF_MAIN_INIT(run_case, init)
