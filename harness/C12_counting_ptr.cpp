// C12: CountingPtr. Sequential histories over a few managed objects and handle variables
// (mode=seq): after every step the reference count of every object equals the number of
// handles pointing at it, and the set of live objects equals the set of objects with at
// least one handle -- an object is destroyed exactly when its last handle lets go, never
// earlier, never twice (registry keyed by address + ASan). Concurrent part (mode=serial
// through the dsched shims, mode=jitter under TSan/ASan): 2-3 threads copy, move, drop and
// exchange handles to shared objects; the object must die exactly once, after the last
// handle of any thread is gone.
#include <verif.hpp>

#include <set>

#include <tlx/counting_ptr.hpp>

using verif::Rng;

static uint64_t g_ops = 0;
struct Stop {};

/******************************************************************************/
// managed types with a destruction registry

struct Registry {
    std::mutex m;
    std::set<const void*> live;
    uint64_t constructed = 0, destroyed = 0, errors = 0;
    static Registry& get() { static Registry r; return r; }
    void ctor(const void* p) { std::lock_guard<std::mutex> l(m); ++constructed; if (!live.insert(p).second) { ++errors; verif::fail("C12:lifetime:constructed-over-live-object", "object constructed over a live one"); } }
    void dtor(const void* p) { std::lock_guard<std::mutex> l(m); ++destroyed; if (!live.erase(p)) { ++errors; verif::fail("C12:lifetime:destroyed-twice", "an object was destroyed twice (or never constructed)"); } }
    bool alive(const void* p) { std::lock_guard<std::mutex> l(m); return live.count(p) != 0; }
    size_t count() { std::lock_guard<std::mutex> l(m); return live.size(); }
};

struct Obj : public tlx::ReferenceCounter {
    int id;
    int* heap;
    static std::atomic<int>& next_id() { static std::atomic<int> n{ 1 }; return n; }
    Obj() : id(next_id()++), heap(new int(id)) { Registry::get().ctor(this); }
    Obj(const Obj& o) : tlx::ReferenceCounter(o), id(next_id()++), heap(new int(*o.heap)) { Registry::get().ctor(this); }   // used by unify()
    Obj& operator=(const Obj&) = delete;
    virtual ~Obj() { Registry::get().dtor(this); delete heap; heap = nullptr; }
};
struct Der : public Obj {
    int extra = 7;
    Der() : Obj() {}
    Der(const Der& o) : Obj(o) {}
};

static std::atomic<uint64_t> g_deleter_calls{ 0 };
struct CountingDeleter {
    template <typename T> void operator()(T* p) const noexcept { ++g_deleter_calls; delete p; }
};

/******************************************************************************/
// sequential histories

template <typename Deleter, bool NoDelete>
struct SeqDriver {
    typedef tlx::CountingPtr<Obj, Deleter> P;
    typedef tlx::CountingPtr<const Obj, Deleter> CP;
    typedef tlx::CountingPtr<Der, Deleter> DP;
    Rng& rng;
    static const int NH = 5, ND = 2, NC = 2;
    P h[NH]; DP d[ND]; CP c[NC];
    std::vector<std::unique_ptr<Obj> > stack_objs;   // NoDelete: objects owned by the harness
    std::vector<std::string> trace;
    std::set<const Obj*> known;   // objects that had a handle at some point and are expected alive
    const char* dname;
    SeqDriver(Rng& r, const char* dn) : rng(r), dname(dn) {}

    void bad(const std::string& what, const std::string& detail) {
        std::string tr; size_t from = trace.size() > 40 ? trace.size() - 40 : 0;
        for (size_t i = from; i < trace.size(); ++i) tr += trace[i] + "; ";
        verif::fail("C12:" + what, std::string("CountingPtr<Obj,") + dname + "> " + what + ": " + detail + " | ops: " + tr);
        throw Stop();
    }
    const Obj* ptr_of(int i) const { return i < NH ? h[i].get() : i < NH + ND ? static_cast<const Obj*>(d[i - NH].get()) : c[i - NH - ND].get(); }
    std::string hn(int i) const { return i < NH ? "h" + std::to_string(i) : i < NH + ND ? "d" + std::to_string(i - NH) : "c" + std::to_string(i - NH - ND); }

    //! expected state is derived from the handles themselves: count(object) = #handles pointing at it
    void check(const char* after, const std::vector<const Obj*>& expect_ptr) {
        const int N = NH + ND + NC;
        std::map<const Obj*, size_t> cnt;
        for (int i = 0; i < N; ++i) {
            const Obj* p = ptr_of(i);
            if (expect_ptr[i] != reinterpret_cast<const Obj*>(1) && p != expect_ptr[i])
                bad("handle-target", std::string(after) + ": " + hn(i) + " points at " + (p ? "object " + std::to_string(Registry::get().alive(p) ? p->id : -1) : std::string("null")) + ", expected " + (expect_ptr[i] ? "object " + std::to_string(expect_ptr[i]->id) : std::string("null")));
            if (p) ++cnt[p];
        }
        // every referenced object is alive and its count is the number of handles
        for (auto& kv : cnt) {
            if (!Registry::get().alive(kv.first)) bad("destroyed-while-referenced", std::string(after) + ": an object with " + std::to_string(kv.second) + " handle(s) has been destroyed");
            if (kv.first->reference_count() != kv.second) bad("reference-count", std::string(after) + ": object " + std::to_string(kv.first->id) + " has reference_count() " + std::to_string(kv.first->reference_count()) + " but " + std::to_string(kv.second) + " handle(s) point at it");
            known.insert(kv.first);
        }
        for (int i = 0; i < NH; ++i) {
            const P& x = h[i];
            if (x.valid() != (x.get() != nullptr) || x.empty() != (x.get() == nullptr) || static_cast<bool>(x) != x.valid()) bad("valid/empty", after);
            if (x.get()) {
                if (x.use_count() != cnt[x.get()]) bad("use_count", std::string(after) + ": " + hn(i) + ".use_count() = " + std::to_string(x.use_count()) + ", handles " + std::to_string(cnt[x.get()]));
                if (x.unique() != (cnt[x.get()] == 1)) bad("unique", after);
                if (&*x != x.get() || x->id != x.get()->id) bad("dereference", after);
            }
            else if (x.unique()) bad("unique", std::string(after) + ": empty handle reports unique()");
        }
        // objects that lost their last handle are gone (unless nothing ever deletes), others are alive
        for (auto it = known.begin(); it != known.end();) {
            bool referenced = cnt.count(*it) != 0;
            bool alive = Registry::get().alive(*it);
            if (!referenced && alive && !NoDelete) bad("not-destroyed-at-zero", std::string(after) + ": an object without handles is still alive");
            if (!referenced && !alive && NoDelete) bad("destroyed-by-no-delete-handle", after);
            if (!referenced) it = known.erase(it); else ++it;
        }
        if (!NoDelete) {
            if (Registry::get().count() != cnt.size()) bad("live-objects", std::string(after) + ": " + std::to_string(Registry::get().count()) + " objects alive, " + std::to_string(cnt.size()) + " referenced");
        }
        if (Registry::get().errors) throw Stop();
    }

    Obj* fresh_obj(bool derived) {
        Obj* o = derived ? new Der() : new Obj();
        if (NoDelete) stack_objs.emplace_back(o);
        return o;
    }

    void op() {
        ++g_ops;
        const int N = NH + ND + NC;
        std::vector<const Obj*> e(N);
        for (int i = 0; i < N; ++i) e[i] = ptr_of(i);
        const Obj* const ANY = reinterpret_cast<const Obj*>(1);
        int i = (int)rng.below(NH), j = (int)rng.below(NH);
        int di = (int)rng.below(ND), ci = (int)rng.below(NC);
        switch (rng.below(24)) {
        case 0: { Obj* o = fresh_obj(false); trace.push_back("h" + std::to_string(i) + " = P(new Obj #" + std::to_string(o->id) + ")"); h[i] = P(o); e[i] = o; break; }
        case 1: { if (NoDelete) return; trace.push_back("h" + std::to_string(i) + " = make_counting");
                  if (std::is_same<Deleter, tlx::CountingPtrDefaultDeleter>::value) { auto p = tlx::make_counting<Obj>(); e[i] = p.get(); assign_default(i, p); }
                  else { Obj* o = fresh_obj(false); h[i] = P(o); e[i] = o; }
                  break; }
        case 2: case 3: trace.push_back("h" + std::to_string(i) + " = h" + std::to_string(j)); h[i] = h[j]; e[i] = e[j]; break;
        case 4: case 5: {
            trace.push_back("h" + std::to_string(i) + " = std::move(h" + std::to_string(j) + ")");
            bool alias = e[i] == e[j];
            h[i] = std::move(h[j]);
            if (i != j) { if (alias) { e[j] = ANY; } else { e[i] = e[j]; e[j] = nullptr; } }
            else e[i] = ANY;
            // an aliasing move may leave the source untouched or empty it; either way the counts must add up
            if (e[i] == ANY && i == j) e[i] = ptr_of(i);
            break;
        }
        case 6: { trace.push_back("P tmp(h" + std::to_string(j) + "); h" + std::to_string(i) + ".swap(tmp)"); P tmp(h[j]); h[i].swap(tmp); e[i] = e[j]; break; }
        case 7: { trace.push_back("P tmp(std::move(h" + std::to_string(j) + ")); h" + std::to_string(i) + " = std::move(tmp)");
                  const Obj* src = e[j]; P tmp(std::move(h[j])); if (i != j) e[j] = nullptr; bool alias = (i != j) && e[i] == src;
                  h[i] = std::move(tmp); e[i] = src; (void)alias; break; }
        case 8: trace.push_back("h" + std::to_string(i) + ".reset()"); h[i].reset(); e[i] = nullptr; break;
        case 9: trace.push_back("h" + std::to_string(i) + ".swap(h" + std::to_string(j) + ")"); h[i].swap(h[j]); std::swap(e[i], e[j]); break;
        case 10: trace.push_back("swap(h" + std::to_string(i) + ", h" + std::to_string(j) + ")"); { using std::swap; swap(h[i], h[j]); } std::swap(e[i], e[j]); break;
        case 11: {
            if (NoDelete) return;
            trace.push_back("h" + std::to_string(i) + ".unify()");
            size_t shared = 0;
            for (int k = 0; k < N; ++k) shared += (e[k] && e[k] == e[i]);
            int before = Obj::next_id();
            h[i].unify();
            if (e[i] && shared > 1) {
                if (Obj::next_id() != before + 1) bad("unify", "shared object was not cloned");
                if (h[i].get() == e[i]) bad("unify", "handle still points at the shared object");
                if (*h[i]->heap != *e[i]->heap) bad("unify", "clone does not hold the value of the original");
                e[i] = h[i].get();
            }
            else if (Obj::next_id() != before) bad("unify", "unique or empty handle was cloned");
            verif::count(shared > 1 ? "unify_shared" : "unify_unique_or_empty");
            break;
        }
        case 12: { Der* o = static_cast<Der*>(fresh_obj(true)); trace.push_back("d" + std::to_string(di) + " = DP(new Der #" + std::to_string(o->id) + ")"); d[di] = DP(o); e[NH + di] = o; break; }
        case 13: trace.push_back("h" + std::to_string(i) + " = d" + std::to_string(di) + " (converting copy-assign)"); h[i] = d[di]; e[i] = e[NH + di]; break;
        case 14: { trace.push_back("h" + std::to_string(i) + " = std::move(d" + std::to_string(di) + ") (converting move-assign)");
                   bool alias = e[i] == e[NH + di]; h[i] = std::move(d[di]);
                   if (alias) e[NH + di] = ANY; else { e[i] = e[NH + di]; e[NH + di] = nullptr; }
                   break; }
        case 15: { trace.push_back("P tmp(d" + std::to_string(di) + "); h" + std::to_string(i) + ".swap(tmp) (converting copy-ctor)"); P tmp(d[di]); h[i].swap(tmp); e[i] = e[NH + di]; break; }
        case 16: { trace.push_back("P tmp(std::move(d" + std::to_string(di) + ")) (converting move-ctor)"); const Obj* src = e[NH + di]; P tmp(std::move(d[di])); e[NH + di] = nullptr; h[i].swap(tmp); e[i] = src; break; }
        case 17: trace.push_back("c" + std::to_string(ci) + " = CP(h" + std::to_string(j) + ".get())"); c[ci] = CP(h[j].get()); e[NH + ND + ci] = e[j]; break;
        case 18: trace.push_back("h" + std::to_string(i) + " = P(h" + std::to_string(j) + ".get()) (second handle from the raw pointer)"); h[i] = P(h[j].get()); e[i] = e[j]; break;
        case 19: trace.push_back("h" + std::to_string(i) + " = P(nullptr)"); h[i] = P(nullptr); e[i] = nullptr; break;
        case 20: trace.push_back("d" + std::to_string(di) + ".reset()"); d[di].reset(); e[NH + di] = nullptr; break;
        case 21: trace.push_back("c" + std::to_string(ci) + ".reset()"); c[ci].reset(); e[NH + ND + ci] = nullptr; break;
        case 22: {
            trace.push_back("compare h" + std::to_string(i) + ", h" + std::to_string(j));
            if ((h[i] == h[j]) != (e[i] == e[j]) || (h[i] != h[j]) != (e[i] != e[j])) bad("operator==", "");
            if ((h[i] == const_cast<Obj*>(e[j])) != (e[i] == e[j]) || (h[i] != const_cast<Obj*>(e[j])) != (e[i] != e[j])) bad("operator==(raw)", "");
            if ((h[i] < h[j]) != std::less<const Obj*>()(e[i], e[j]) || (h[i] >= h[j]) == std::less<const Obj*>()(e[i], e[j])) bad("operator<", "");
            break;
        }
        default: { trace.push_back("h" + std::to_string(i) + " = h" + std::to_string(i) + " (self)"); P& self = h[i]; h[i] = self; break; }
        }
        // aliasing moves: accept either outcome for the source, but take what is there
        for (int k = 0; k < N; ++k) if (e[k] == ANY) e[k] = ptr_of(k);
        check(trace.back().c_str(), e);
    }
    template <typename Q> void assign_default(int i, Q& p) { assign_impl(i, p, std::is_same<Q, P>()); }
    template <typename Q> void assign_impl(int i, Q& p, std::true_type) { h[i] = std::move(p); }
    template <typename Q> void assign_impl(int, Q&, std::false_type) {}

    void run() {
        verif::live_trace() = &trace;
        uint64_t del0 = g_deleter_calls.load(), destroyed0 = Registry::get().destroyed;
        try {
            std::vector<const Obj*> e(NH + ND + NC, nullptr);
            check("construct", e);
            size_t nops = rng.pick(std::vector<size_t>{ 20, 80, 250 });
            for (size_t k = 0; k < nops; ++k) op();
            for (auto& x : h) x.reset();
            for (auto& x : d) x.reset();
            for (auto& x : c) x.reset();
            check("final reset", e);
        }
        catch (Stop&) {
            for (auto& x : h) x.reset();
            for (auto& x : d) x.reset();
            for (auto& x : c) x.reset();
        }
        stack_objs.clear();
        if (std::is_same<Deleter, CountingDeleter>::value && !verif::case_failed()) {
            uint64_t calls = g_deleter_calls.load() - del0, dest = Registry::get().destroyed - destroyed0;
            if (calls != dest) verif::fail("C12:deleter-calls", "custom deleter called " + std::to_string(calls) + " times, " + std::to_string(dest) + " objects destroyed");
        }
        if (Registry::get().count() && !verif::case_failed()) verif::fail("C12:leak", std::to_string(Registry::get().count()) + " object(s) alive after all handles are gone");
        Registry::get().live.clear(); Registry::get().errors = 0;
        verif::cover(std::string("seq:") + dname);
        verif::count("seq_histories");
        verif::live_trace() = nullptr;
    }
};

/******************************************************************************/
// handles that live inside managed objects: singly linked lists of nodes

struct Node : public tlx::ReferenceCounter {
    int id;
    int* heap;
    tlx::CountingPtr<Node> next;
    static int& next_id() { static int n = 1; return n; }
    Node() : id(next_id()++), heap(new int(id)) { Registry::get().ctor(this); }
    Node(const Node&) = delete;
    ~Node() { Registry::get().dtor(this); delete heap; heap = nullptr; }
};

struct ListDriver {
    typedef tlx::CountingPtr<Node> P;
    static const int NH = 4;
    Rng& rng;
    P h[NH];
    int mh[NH] = { 0, 0, 0, 0 };        // model: id each handle points at (0 = null)
    // handles to const: every assignment from a P or from a node's next goes through the
    // converting (templated) constructors and assignment operators
    typedef tlx::CountingPtr<const Node> CP;
    static const int NC = 2;
    CP c[NC];
    int mc[NC] = { 0, 0 };
    std::map<int, int> mnext;          // model: id -> id of next (0 = null), for every live node
    std::vector<std::string> trace;
    explicit ListDriver(Rng& r) : rng(r) {}

    void bad(const std::string& what, const std::string& detail) {
        std::string tr; size_t from = trace.size() > 40 ? trace.size() - 40 : 0;
        for (size_t i = from; i < trace.size(); ++i) tr += trace[i] + "; ";
        verif::fail("C12:list:" + what, "CountingPtr<Node> list " + what + ": " + detail + " | ops: " + tr);
        throw Stop();
    }
    bool reaches(int from, int target) const {
        for (int x = from; x; x = mnext.at(x)) if (x == target) return true;
        return false;
    }
    void check(const char* after) {
        // model: reachable set and reference counts
        std::map<int, size_t> cnt;
        std::set<int> reach;
        for (int i = 0; i < NH; ++i) if (mh[i]) ++cnt[mh[i]];
        for (int i = 0; i < NC; ++i) if (mc[i]) ++cnt[mc[i]];
        std::vector<int> work;
        for (int i = 0; i < NH; ++i) if (mh[i] && reach.insert(mh[i]).second) work.push_back(mh[i]);
        for (int i = 0; i < NC; ++i) if (mc[i] && reach.insert(mc[i]).second) work.push_back(mc[i]);
        while (!work.empty()) {
            int x = work.back(); work.pop_back();
            int n = mnext.at(x);
            if (n) { ++cnt[n]; if (reach.insert(n).second) work.push_back(n); }
        }
        // nodes no longer reachable are expected to be gone
        for (auto it = mnext.begin(); it != mnext.end();) { if (!reach.count(it->first)) it = mnext.erase(it); else ++it; }
        if (Registry::get().count() != reach.size())
            bad("live-objects", std::string(after) + ": " + std::to_string(Registry::get().count()) + " nodes alive, " + std::to_string(reach.size()) + " reachable from the handles");
        // walk the real lists
        for (int i = 0; i < NH + NC; ++i) {
            const Node* p = i < NH ? h[i].get() : c[i - NH].get();
            int x = i < NH ? mh[i] : mc[i - NH];
            size_t steps = 0;
            while (p || x) {
                if (!p || !x) bad("handle-target", std::string(after) + ": chain of h" + std::to_string(i) + " ends " + (p ? "later" : "earlier") + " than the model's");
                if (!Registry::get().alive(p)) bad("destroyed-while-referenced", std::string(after) + ": a node reachable from h" + std::to_string(i) + " has been destroyed");
                if (p->id != x) bad("handle-target", std::string(after) + ": chain of h" + std::to_string(i) + " holds node " + std::to_string(p->id) + ", model " + std::to_string(x));
                if (p->reference_count() != cnt[x]) bad("reference-count", std::string(after) + ": node " + std::to_string(x) + " has reference_count() " + std::to_string(p->reference_count()) + ", " + std::to_string(cnt[x]) + " handle(s) point at it");
                if (*p->heap != p->id) bad("object-corrupted", after);
                p = p->next.get(); x = mnext.at(x);
                if (++steps > 10000) bad("cycle", after);
            }
        }
        if (Registry::get().errors) throw Stop();
    }
    void op() {
        ++g_ops;
        int i = (int)rng.below(NH), j = (int)rng.below(NH);
        std::string hi = "h" + std::to_string(i), hj = "h" + std::to_string(j);
        int a = (int)rng.below(NC), b = (int)rng.below(NC);
        std::string ca = "c" + std::to_string(a), cb = "c" + std::to_string(b);
        switch (rng.below(18)) {
        case 12: trace.push_back(ca + " = " + hi + " (converting copy-assign)"); c[a] = h[i]; mc[a] = mh[i]; verif::count("list_const_from_handle"); break;
        case 13: case 14:
            if (!mc[a]) return;
            trace.push_back(ca + " = " + ca + "->next (converting copy-assign from a member of the released node)");
            c[a] = c[a]->next; mc[a] = mnext.at(mc[a]); verif::count("list_const_pop_front_by_copy"); break;
        case 15:
            if (!mc[a]) return;
            if (rng.coin()) { trace.push_back(cb + " = " + ca + "->next (converting copy-assign)"); c[b] = c[a]->next; }
            else { trace.push_back("CP tmp(" + ca + "->next); " + cb + ".swap(tmp) (converting copy-ctor)"); CP tmp(c[a]->next); c[b].swap(tmp); }
            mc[b] = mnext.at(mc[a]); break;
        case 16:
            // (moves between handles of one object may leave the source as it was: the first driver covers them)
            if (a == b || mc[a] == mc[b] || rng.coin()) { trace.push_back(ca + " = " + cb); c[a] = c[b]; mc[a] = mc[b]; }
            else { trace.push_back(ca + " = std::move(" + cb + ")"); c[a] = std::move(c[b]); mc[a] = mc[b]; mc[b] = 0; }
            break;
        case 17:
            if (rng.coin()) { trace.push_back(ca + ".reset()"); c[a].reset(); mc[a] = 0; }
            else { trace.push_back(ca + " = P(" + hi + ") (converting move-assign)"); c[a] = P(h[i]); mc[a] = mh[i]; }
            break;
        case 0: { h[i] = tlx::make_counting<Node>(); mh[i] = h[i]->id; mnext[mh[i]] = 0; trace.push_back(hi + " = new node #" + std::to_string(mh[i])); break; }
        case 1: case 2: {   // push front
            P n = tlx::make_counting<Node>();
            trace.push_back("push_front(" + hi + ", #" + std::to_string(n->id) + ")");
            n->next = h[i]; mnext[n->id] = mh[i];
            h[i] = n; mh[i] = n->id;
            break;
        }
        case 3: case 4: if (!mh[i]) return; trace.push_back(hi + " = " + hi + "->next"); h[i] = h[i]->next; mh[i] = mnext.at(mh[i]); verif::count("list_pop_front_by_copy"); break;
        case 5: {
            if (!mh[i]) return;
            trace.push_back(hi + " = std::move(" + hi + "->next)");
            int n = mnext.at(mh[i]);
            // if the node survives (other owners), its next is moved-from: empty
            mnext[mh[i]] = 0;
            h[i] = std::move(h[i]->next); mh[i] = n;
            verif::count("list_pop_front_by_move");
            break;
        }
        case 6: if (!mh[i]) return; trace.push_back(hj + " = " + hi + "->next"); h[j] = h[i]->next; mh[j] = mnext.at(mh[i]); break;
        case 7: {
            if (!mh[i] || (mh[j] && reaches(mh[j], mh[i]))) return;    // would close a cycle
            trace.push_back(hi + "->next = " + hj);
            h[i]->next = h[j]; mnext[mh[i]] = mh[j];
            break;
        }
        case 8: if (!mh[i]) return; trace.push_back(hi + "->next.reset()"); h[i]->next.reset(); mnext[mh[i]] = 0; break;
        case 9: {   // unlink the second node
            if (!mh[i] || !mnext.at(mh[i])) return;
            int second = mnext.at(mh[i]);
            if (rng.coin()) { trace.push_back(hi + "->next = " + hi + "->next->next"); h[i]->next = h[i]->next->next; mnext[mh[i]] = mnext.at(second); }
            else { trace.push_back(hi + "->next = std::move(" + hi + "->next->next)"); int third = mnext.at(second); mnext[second] = 0; h[i]->next = std::move(h[i]->next->next); mnext[mh[i]] = third; }
            verif::count("list_unlink");
            break;
        }
        case 10: trace.push_back(hi + ".reset()"); h[i].reset(); mh[i] = 0; break;
        default: trace.push_back(hi + " = " + hj); h[i] = h[j]; mh[i] = mh[j]; break;
        }
        check(trace.back().c_str());
    }
    void run() {
        verif::live_trace() = &trace;
        try {
            check("construct");
            size_t nops = rng.pick(std::vector<size_t>{ 20, 80, 250 });
            for (size_t k = 0; k < nops; ++k) op();
            for (int i = 0; i < NH; ++i) { h[i].reset(); mh[i] = 0; }
            for (int i = 0; i < NC; ++i) { c[i].reset(); mc[i] = 0; }
            check("final reset");
        }
        catch (Stop&) { for (auto& x : h) x.reset(); for (auto& x : c) x.reset(); }
        if (Registry::get().count() && !verif::case_failed()) verif::fail("C12:list:leak", std::to_string(Registry::get().count()) + " node(s) alive after all handles are gone");
        Registry::get().live.clear(); Registry::get().errors = 0;
        verif::cover("seq:list");
        verif::count("list_histories");
        verif::live_trace() = nullptr;
    }
};

/******************************************************************************/
// concurrent histories (dsched shims: the reference counter's atomic is a scheduling point)

static bool g_serial = true;
static std::string g_scenario;
static void print_scenario() { fprintf(stderr, "scenario: %s\n", g_scenario.c_str()); }
static void pause_point() { if (g_serial) dsched::S().yield_point(); else dsched::S().jitter(); }

static void conc_case(Rng& rng) {
    typedef tlx::CountingPtr<Obj> P;
    unsigned nt = 2 + (unsigned)rng.below(2);
    unsigned nobj = 1 + (unsigned)rng.below(2);
    unsigned steps = 3 + (unsigned)rng.below(g_serial ? 6 : 30);
    g_scenario = "concurrent: " + std::to_string(nt) + " threads, " + std::to_string(nobj) + " shared object(s), " + std::to_string(steps) + " steps each";
    std::vector<std::vector<unsigned> > script(nt, std::vector<unsigned>(steps));
    for (auto& s : script) for (auto& x : s) x = (unsigned)rng.below(12);
    uint64_t destroyed0 = Registry::get().destroyed, constructed0 = Registry::get().constructed;
    dsched::Sched& S = dsched::S();
    S.context = "counting_ptr";
    S.begin(rng.next(), (int)rng.below(dsched::STRATEGIES));
    {
        std::vector<P> roots(nobj);
        for (auto& r : roots) r = P(new Obj());
        // a handle that only its creator owns (count 1) and that several threads copy from at the same
        // time without a lock: concurrent reads of one handle object are allowed
        const P sole(new Obj());
        // a mailbox through which threads hand copies to each other
        dsched::mutex box_mutex;
        P box;
        std::vector<dsched::thread> threads;
        for (unsigned t = 0; t < nt; ++t) {
            P mine = roots[t % nobj];     // each thread starts with its own handle (copied before the thread starts)
            threads.emplace_back([&, t, mine]() mutable {
                P a = mine, b;
                mine.reset();
                for (unsigned s = 0; s < script[t].size(); ++s) {
                    pause_point();
                    switch (script[t][s]) {
                    case 0: b = a; break;                       // copy
                    case 1: b.reset(); break;                   // drop
                    case 2: { P tmp(a); P tmp2(std::move(tmp)); b = std::move(tmp2); break; }
                    case 3: { std::unique_lock<dsched::mutex> l(box_mutex); box = a; break; }          // publish a copy
                    case 4: { std::unique_lock<dsched::mutex> l(box_mutex); if (box) { a = box; } break; } // adopt the published one
                    case 5: { std::unique_lock<dsched::mutex> l(box_mutex); box.reset(); break; }
                    case 6: a.swap(b); if (!a) a = b; break;
                    case 8: case 9: a.unify(); break;
                    case 10: case 11: b = sole; break;          // copy of the shared, singly owned handle           // clone if shared - while others may be letting go
                    default: if (a && (*a->heap <= 0 || *a->heap > a->id)) verif::fail("C12:concurrent:object-corrupted", g_scenario); break;   // a clone keeps the value of its original
                    }
                    // (controlled runs only: on real threads the registry's lock would add happens-before edges
                    //  between the threads and hide races of the counter from TSan; ASan sees the use-after-free)
                    if (g_serial && a && !Registry::get().alive(a.get())) { verif::fail("C12:concurrent:destroyed-while-referenced", "a thread holds a handle to a destroyed object | " + g_scenario); break; }
                }
            });
        }
        for (auto& r : roots) { pause_point(); r.reset(); }     // the creator lets go while the threads are running
        for (auto& t : threads) t.join();
        { std::unique_lock<dsched::mutex> l(box_mutex); box.reset(); }
    }
    dsched::Stats st = S.end();
    uint64_t died = Registry::get().destroyed - destroyed0, born = Registry::get().constructed - constructed0;
    if (!verif::case_failed()) {
        if (Registry::get().count() != 0) verif::fail("C12:concurrent:not-destroyed", std::to_string(Registry::get().count()) + " object(s) alive after every handle is gone | " + g_scenario);
        else if (died != born) verif::fail("C12:concurrent:destruction-count", std::to_string(died) + " destructions for " + std::to_string(born) + " objects | " + g_scenario);
    }
    if (born > nobj) verif::count("concurrent_unify_clones", born - nobj);
    Registry::get().live.clear(); Registry::get().errors = 0;
    verif::count("concurrent_histories");
    if (g_serial) { verif::distinct(st.hash); verif::count("schedule_steps", st.steps); }
    verif::cover("concurrent:threads=" + std::to_string(nt) + ":objects=" + std::to_string(nobj));
}

/******************************************************************************/
// mode=wide: more than 2^32 handles to one object. Real handles would need 32 GiB, so all but a few are
// modelled by what a handle copy / release does to the object: inc_reference() / dec_reference() of its
// ReferenceCounter. The count must not wrap, and the object dies at the very last release only.
static void wide_case(Rng& rng) {
    typedef tlx::CountingPtr<Obj> P;
    uint64_t destroyed0 = Registry::get().destroyed;
    P a(new Obj);
    Obj* o = a.get();
    const uint64_t M = (1ull << 32) + rng.below(5);
    g_scenario = "one object, " + std::to_string(M) + " modelled handles + 2 real ones";
    auto bad = [&](const std::string& key, const std::string& what) { verif::fail("C12:wide:" + key, what + " | " + g_scenario); };
    for (uint64_t i = 0; i < M; ++i) o->inc_reference();
    if (o->reference_count() != M + 1 || a.use_count() != M + 1) { bad("count", "use_count() is " + std::to_string(a.use_count()) + " with " + std::to_string(M + 1) + " handles"); return; }
    if (a.unique()) { bad("unique", "unique() with " + std::to_string(M + 1) + " handles"); return; }
    {
        P b = a;
        if (b.use_count() != M + 2) { bad("count", "use_count() is " + std::to_string(b.use_count()) + " with " + std::to_string(M + 2) + " handles"); return; }
        b.reset();
    }
    if (Registry::get().destroyed != destroyed0) { bad("destroyed-early", "the object was destroyed by the release of one handle while " + std::to_string(M + 1) + " remain"); return; }
    for (uint64_t i = 0; i < M; ++i)
        if (o->dec_reference()) { bad("last-handle-reported-early", "dec_reference() reported the last handle with " + std::to_string(M - i) + " handles remaining"); return; }
    if (a.use_count() != 1 || !a.unique()) { bad("count", "use_count() is " + std::to_string(a.use_count()) + " with one handle"); return; }
    a.reset();
    if (Registry::get().destroyed != destroyed0 + 1 || Registry::get().count() != 0) bad("not-destroyed", "the object was not destroyed exactly once by the last release");
    Registry::get().live.clear(); Registry::get().errors = 0;
    verif::count("wide_counts_checked");
    verif::count("wide_reference_operations", 2 * M);
    verif::cover("wide:handles>2^32");
    verif::sample(g_scenario);
}

static void run_case(Rng& rng, uint64_t) {
    std::string mode = verif::param("mode", "seq");
    if (mode == "wide") { wide_case(rng); return; }
    if (mode == "seq") {
        uint64_t o0 = g_ops;
        for (int r = 0; r < 20; ++r) {
            switch (rng.below(4)) {
            case 0: case 1: { SeqDriver<tlx::CountingPtrDefaultDeleter, false> d(rng, "default"); d.run(); break; }
            case 2: { SeqDriver<CountingDeleter, false> d(rng, "counting-deleter"); d.run(); break; }
            default: { SeqDriver<tlx::CountingPtrNoOperationDeleter, true> d(rng, "no-delete"); d.run(); break; }
            }
            if (!verif::case_failed()) { ListDriver l(rng); l.run(); }
            if (verif::case_failed()) break;
        }
        verif::count("operations", g_ops - o0);
    }
    else {
        for (int r = 0; r < 60; ++r) { conc_case(rng); if (verif::case_failed()) break; }
    }
}

static void init() {
    verif::property_id() = "C12";
    std::string mode = verif::param("mode", "seq");
    g_serial = mode != "jitter";
    dsched::S().mode = mode == "serial" ? dsched::SERIAL : mode == "jitter" ? dsched::JITTER : dsched::REAL;
    dsched::S().prop = "C12";
    dsched::S().on_deadlock = print_scenario;
    verif::death_extra() = verif::print_live_trace;
}
VERIF_MAIN_INIT(run_case, init)
