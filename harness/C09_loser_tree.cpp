// C09: loser trees. A shadow array of every player's current key / exhausted flag
// is scanned after init() and after every delete_min_insert(); the reported winner
// must be a live player holding a minimal key (stable: the smallest such index).
#include <verif.hpp>

#include <functional>
#include <string>

#include <tlx/container/loser_tree.hpp>

using verif::Rng;

// A default-constructed key is a placeholder (what the trees store for an exhausted player), not a key
// any player holds: it carries a poison value, and the comparators count every call that sees one.
static const int PLACEHOLDER_KEY = -424242;
static uint64_t g_placeholder_compares = 0;

struct Big {          // 40 bytes: selects the pointer trees in LoserTree<>
    int key;
    int pad[9];
    Big() : key(PLACEHOLDER_KEY) { for (int& p : pad) p = 0x5a5a; }
    explicit Big(int k) : key(k) { for (int& p : pad) p = 0x5a5a; }
};
struct Small {        // 8 bytes: selects the copy trees
    int key;
    int tag;
    Small() : key(PLACEHOLDER_KEY), tag(0x77) {}
    explicit Small(int k) : key(k), tag(0x77) {}
};
struct Str {          // heap-owning key in a copy tree (lifetime errors become ASan reports)
    std::string s;
    int key;
    Str() : s("default-constructed-key-long-enough-for-the-heap"), key(PLACEHOLDER_KEY) {}
    explicit Str(int k) : s("key-" + std::to_string(k) + "-long-enough-to-live-on-the-heap"), key(k) {}
};

VERIF_MISLEADING_ORDER(Big, key)
VERIF_MISLEADING_EQUALITY(Big, key)
VERIF_MISLEADING_ORDER(Small, key)
VERIF_MISLEADING_EQUALITY(Small, key)
VERIF_MISLEADING_ORDER(Str, key)
VERIF_MISLEADING_EQUALITY(Str, key)

template <typename T> static inline void cmp_sees(const T& a, const T& b) { if (a.key == PLACEHOLDER_KEY || b.key == PLACEHOLDER_KEY) ++g_placeholder_compares; }
template <typename T> struct Less { bool operator()(const T& a, const T& b) const { cmp_sees(a, b); return a.key < b.key; } };
template <typename T> struct Greater { bool operator()(const T& a, const T& b) const { cmp_sees(a, b); return a.key > b.key; } };

static const int SENTINEL_LESS = 1000, SENTINEL_GREATER = -1000;

struct Plan {
    unsigned k;
    bool descending;
    bool keys_reach_sentinel;             // real keys may be equal to the constructor sentinel
    std::vector<std::vector<int> > keys;  // per player, sorted by the order
    std::vector<unsigned> reg_order;      // order in which the players are registered with insert_start()
    bool slot_feeding = false;            // keys are handed over through one reused slot per player
    bool second_round = false;            // played on a tree object that has already been through a complete round
    std::string str() const {
        std::string s = "k=" + std::to_string(k) + (descending ? " greater" : " less");
        if (slot_feeding) s += " slot-feeding";
        if (second_round) s += " (second round on the same tree object: all players registered again, init() again)";
        if (!std::is_sorted(reg_order.begin(), reg_order.end())) s += " registration order " + verif::join_range(reg_order.begin(), reg_order.end());
        for (auto& v : keys) s += " [" + verif::join_range(v.begin(), v.end()) + "]";
        return s;
    }
};

static Plan make_plan(Rng& rng, bool unguarded, unsigned force_k = 0, int force_desc = -1) {
    Plan p;
    static const std::vector<unsigned> ks = { 1, 2, 3, 4, 5, 6, 7, 8, 9, 10, 11, 12, 13, 14, 15, 16, 17, 31, 32, 33, 64 };
    p.k = rng.chance(1, 12) ? (unsigned)rng.range(18, 70) : rng.pick(ks);
    p.descending = rng.coin();
    if (force_k) p.k = force_k;
    if (force_desc >= 0) p.descending = force_desc != 0;
    p.keys_reach_sentinel = unguarded && rng.chance(1, 3);
    int universe = (int)rng.pick(std::vector<int>{ 1, 2, 3, 4, 8, 100 });
    size_t maxlen = unguarded ? 14 : 12;
    int hi = p.keys_reach_sentinel ? SENTINEL_LESS : universe - 1;
    p.keys.resize(p.k);
    for (auto& v : p.keys) {
        size_t len = unguarded ? 1 + rng.below(maxlen) : (rng.chance(1, 5) ? 0 : rng.below(maxlen + 1));
        for (size_t i = 0; i < len; ++i) {
            int key = (int)rng.below(universe);
            if (p.keys_reach_sentinel && rng.chance(1, 3)) key = hi;   // value of the sentinel
            v.push_back(key);
        }
        std::sort(v.begin(), v.end());
        if (p.descending) {
            // mirror so that "sentinel" is the extreme of the reversed order too
            for (int& x : v) x = -x;
        }
    }
    if (!unguarded && rng.chance(1, 15)) for (auto& v : p.keys) v.clear();   // all exhausted from the start
    p.reg_order.resize(p.k);
    for (unsigned i = 0; i < p.k; ++i) p.reg_order[i] = i;
    if (rng.chance(1, 3)) { if (rng.coin()) std::reverse(p.reg_order.begin(), p.reg_order.end()); else std::shuffle(p.reg_order.begin(), p.reg_order.end(), rng); }
    p.slot_feeding = rng.chance(1, 3);
    return p;
}

static uint64_t g_ops = 0, g_ties = 0;

//! plays the replace-the-winner protocol on a tree and checks every report.
template <typename Tree, typename T, typename Cmp>
static void play(Tree& tree, const Plan& p, Cmp cmp, bool stable, bool unguarded, const std::string& vname) {
    const unsigned k = p.k;
    std::vector<std::vector<T> > streams(k);
    for (unsigned i = 0; i < k; ++i) for (int key : p.keys[i]) streams[i].push_back(T(key));
    std::vector<size_t> cur(k, 0);
    auto live = [&](unsigned i) { return cur[i] < streams[i].size(); };
    // slot feeding: the caller keeps one look-ahead slot per player and refills it in place, so the
    // pointer handed to the tree for a player is always the same
    std::vector<T> slot(p.slot_feeding ? k : 0);
    auto keyp = [&](unsigned i) -> const T* {
        if (!p.slot_feeding) return &streams[i][cur[i]];
        slot[i] = streams[i][cur[i]];
        return &slot[i];
    };
    for (unsigned r = 0; r < k; ++r) {
        unsigned i = p.reg_order[r];
        if (live(i)) tree.insert_start(keyp(i), i, false);
        else tree.insert_start(nullptr, i, true);
    }
    g_placeholder_compares = 0;
    tree.init();
    bool initially_exhausted = false;
    for (unsigned i = 0; i < k; ++i) initially_exhausted |= !live(i);
    size_t step = 0;
    for (;; ++step) {
        // model: minimal live player
        int best = -1;
        for (unsigned i = 0; i < k; ++i) {
            if (!live(i)) continue;
            if (best < 0 || cmp(streams[i][cur[i]], streams[best][cur[best]])) best = (int)i;
        }
        if (best < 0) break;   // all exhausted: nothing is specified about min_source()
        unsigned ntied = 0;
        for (unsigned i = 0; i < k; ++i)
            if (live(i) && !cmp(streams[best][cur[best]], streams[i][cur[i]])) ++ntied;
        if (ntied > 1) ++g_ties;
        unsigned s = tree.min_source();
        ++g_ops;
        std::string why;
        if (s >= k) why = "invalid-source";
        else if (!live(s)) why = "exhausted-player-wins";
        else if (cmp(streams[best][cur[best]], streams[s][cur[s]])) why = "not-a-minimum";
        else if (stable && s != (unsigned)best) why = "unstable-tie-break";
        if (!why.empty()) {
            verif::fail("C09:" + vname + ":" + why,
                        vname + " step " + std::to_string(step) + " reported source " + std::to_string((int)s) +
                        ", model minimum is player " + std::to_string(best) + "; " + p.str());
            return;
        }
        // consume the winner's key, feed its next one
        ++cur[s];
        if (live(s)) tree.delete_min_insert(keyp(s), false);
        else {
            if (unguarded) break;   // documented precondition: no player runs out of keys
            tree.delete_min_insert(nullptr, true);
        }
    }
    if (g_placeholder_compares) {
        verif::fail("C09:" + vname + ":comparator-called-on-placeholder",
                    vname + ": the comparator was called " + std::to_string(g_placeholder_compares) +
                    " time(s) with a default-constructed placeholder key (the key of no player); " + p.str());
        g_placeholder_compares = 0;
        return;
    }
    verif::cover(vname + ":k=" + (k <= 17 ? std::to_string(k) : k <= 33 ? "31-33" : "34+") +
                 (initially_exhausted ? ":init-exhausted" : "") + (p.keys_reach_sentinel ? ":keys=sentinel" : "") +
                 (p.slot_feeding ? ":slot-feeding" : "") + (p.second_round ? ":second-round" : "") + (std::is_sorted(p.reg_order.begin(), p.reg_order.end()) ? "" : ":shuffled-registration"));
}

//! one round, or two rounds on the same tree object (every player is registered again and init() is
//! called again; nothing of the first round may show through)
template <typename Tree, typename T, typename Cmp>
static void rounds(Tree& tree, const Plan& p, const Plan* p2, Cmp cmp, bool stable, bool unguarded, const std::string& vname) {
    play<Tree, T>(tree, p, cmp, stable, unguarded, vname);
    if (p2 && !verif::case_failed()) play<Tree, T>(tree, *p2, cmp, stable, unguarded, vname);
}

template <typename T>
static void all_variants(Rng& rng) {
    const char* tn = sizeof(T) == sizeof(Big) ? "Big" : sizeof(T) == sizeof(Small) ? "Small" : "Str";
    {
        Plan p = make_plan(rng, false);
        Plan p2s = make_plan(rng, false, p.k, p.descending);
        p2s.second_round = true;
        const Plan* p2 = rng.chance(1, 3) ? &p2s : nullptr;
        if (verif::want_sample(2)) verif::sample(std::string("guarded ") + tn + " " + p.str());
        if (!p.descending) {
            Less<T> c;
            { tlx::LoserTreeCopy<false, T, Less<T> > t(p.k, c); rounds<decltype(t), T>(t, p, p2, c, false, false, std::string("LoserTreeCopy<unstable,") + tn + ">"); }
            { tlx::LoserTreeCopy<true, T, Less<T> > t(p.k, c); rounds<decltype(t), T>(t, p, p2, c, true, false, std::string("LoserTreeCopy<stable,") + tn + ">"); }
            { tlx::LoserTreePointer<false, T, Less<T> > t(p.k, c); rounds<decltype(t), T>(t, p, p2, c, false, false, std::string("LoserTreePointer<unstable,") + tn + ">"); }
            { tlx::LoserTreePointer<true, T, Less<T> > t(p.k, c); rounds<decltype(t), T>(t, p, p2, c, true, false, std::string("LoserTreePointer<stable,") + tn + ">"); }
            { tlx::LoserTree<false, T, Less<T> > t(p.k, c); rounds<decltype(t), T>(t, p, p2, c, false, false, std::string("LoserTree<unstable,") + tn + ">"); }
            { tlx::LoserTree<true, T, Less<T> > t(p.k, c); rounds<decltype(t), T>(t, p, p2, c, true, false, std::string("LoserTree<stable,") + tn + ">"); }
        }
        else {
            Greater<T> c;
            { tlx::LoserTreeCopy<false, T, Greater<T> > t(p.k, c); rounds<decltype(t), T>(t, p, p2, c, false, false, std::string("LoserTreeCopy<unstable,") + tn + ">"); }
            { tlx::LoserTreeCopy<true, T, Greater<T> > t(p.k, c); rounds<decltype(t), T>(t, p, p2, c, true, false, std::string("LoserTreeCopy<stable,") + tn + ">"); }
            { tlx::LoserTreePointer<false, T, Greater<T> > t(p.k, c); rounds<decltype(t), T>(t, p, p2, c, false, false, std::string("LoserTreePointer<unstable,") + tn + ">"); }
            { tlx::LoserTreePointer<true, T, Greater<T> > t(p.k, c); rounds<decltype(t), T>(t, p, p2, c, true, false, std::string("LoserTreePointer<stable,") + tn + ">"); }
        }
        verif::count("guarded_histories");
    }
    {
        Plan p = make_plan(rng, true);
        Plan p2s = make_plan(rng, true, p.k, p.descending);
        p2s.second_round = true;
        const Plan* p2 = rng.chance(1, 3) ? &p2s : nullptr;
        if (verif::want_sample(4)) verif::sample(std::string("unguarded ") + tn + " " + p.str());
        if (!p.descending) {
            Less<T> c;
            T sent(SENTINEL_LESS);
            { tlx::LoserTreeCopyUnguarded<false, T, Less<T> > t(p.k, sent, c); rounds<decltype(t), T>(t, p, p2, c, false, true, std::string("LoserTreeCopyUnguarded<unstable,") + tn + ">"); }
            { tlx::LoserTreeCopyUnguarded<true, T, Less<T> > t(p.k, sent, c); rounds<decltype(t), T>(t, p, p2, c, true, true, std::string("LoserTreeCopyUnguarded<stable,") + tn + ">"); }
            { tlx::LoserTreePointerUnguarded<false, T, Less<T> > t(p.k, sent, c); rounds<decltype(t), T>(t, p, p2, c, false, true, std::string("LoserTreePointerUnguarded<unstable,") + tn + ">"); }
            { tlx::LoserTreePointerUnguarded<true, T, Less<T> > t(p.k, sent, c); rounds<decltype(t), T>(t, p, p2, c, true, true, std::string("LoserTreePointerUnguarded<stable,") + tn + ">"); }
            { tlx::LoserTreeUnguarded<true, T, Less<T> > t(p.k, sent, c); rounds<decltype(t), T>(t, p, p2, c, true, true, std::string("LoserTreeUnguarded<stable,") + tn + ">"); }
        }
        else {
            Greater<T> c;
            T sent(SENTINEL_GREATER);
            { tlx::LoserTreeCopyUnguarded<false, T, Greater<T> > t(p.k, sent, c); rounds<decltype(t), T>(t, p, p2, c, false, true, std::string("LoserTreeCopyUnguarded<unstable,") + tn + ">"); }
            { tlx::LoserTreeCopyUnguarded<true, T, Greater<T> > t(p.k, sent, c); rounds<decltype(t), T>(t, p, p2, c, true, true, std::string("LoserTreeCopyUnguarded<stable,") + tn + ">"); }
            { tlx::LoserTreePointerUnguarded<false, T, Greater<T> > t(p.k, sent, c); rounds<decltype(t), T>(t, p, p2, c, false, true, std::string("LoserTreePointerUnguarded<unstable,") + tn + ">"); }
            { tlx::LoserTreePointerUnguarded<true, T, Greater<T> > t(p.k, sent, c); rounds<decltype(t), T>(t, p, p2, c, true, true, std::string("LoserTreePointerUnguarded<stable,") + tn + ">"); }
        }
        verif::count("unguarded_histories");
    }
}

static void run_case(Rng& rng, uint64_t) {
    uint64_t o0 = g_ops, t0 = g_ties;
    for (int r = 0; r < 30; ++r) {
        all_variants<Small>(rng);
        all_variants<Big>(rng);
        if (r % 3 == 0) all_variants<Str>(rng);
    }
    verif::count("winner_reports_checked", g_ops - o0);
    verif::count("reports_with_ties", g_ties - t0);
}

static void init() { verif::property_id() = "C09"; }
VERIF_MAIN_INIT(run_case, init)
