// C07: parallel multiway merge entry points vs the stable reference merge, on real
// threads (plain / ASan / TSan builds). Same shapes and oracle as C05 (elements carry
// (sequence, position): keys position by position, per-sequence prefix property, exact
// stable order for the stable variants, returned end, advanced inputs, canary behind the
// output) plus "every output position is written exactly once": the element type counts
// assignments per destination object (an atomic counter in the plain/ASan builds; a plain
// one under TSan, so that two threads writing the same slot are reported as a race).
#include <merge_common.hpp>

#include <atomic>

#include <tlx/algorithm/parallel_multiway_merge.hpp>

using namespace mergechk;

template <int Pad>
struct ElemW {
    int key = 0;
    unsigned seq = 0, pos = 0;
    int pad[Pad ? Pad : 1];
#if defined(__SANITIZE_THREAD__)
    unsigned writes = 0;
    void bump() { ++writes; }
    unsigned nwrites() const { return writes; }
#else
    std::atomic<unsigned> writes{ 0 };
    void bump() { writes.fetch_add(1, std::memory_order_relaxed); }
    unsigned nwrites() const { return writes.load(); }
#endif
    ElemW() { for (int& x : pad) x = 0; }
    ElemW(const ElemW& o) : key(o.key), seq(o.seq), pos(o.pos) { for (int& x : pad) x = 0x22; }
    ElemW& operator=(const ElemW& o) { key = o.key; seq = o.seq; pos = o.pos; bump(); return *this; }
    void set(int k, unsigned s, unsigned p) { key = k; seq = s; pos = p; }
    unsigned get_seq() const { return seq; }
    unsigned get_pos() const { return pos; }
    static const char* name() { return Pad ? "ElemW40" : "ElemW16"; }
    // see VERIF_MISLEADING_ORDER: present, but disagreeing with every comparator in use
    friend bool operator<(const ElemW& a, const ElemW& b) { return verif::scramble_key(a.key) < verif::scramble_key(b.key); }
    friend bool operator>(const ElemW& a, const ElemW& b) { return b < a; }
    friend bool operator<=(const ElemW& a, const ElemW& b) { return !(b < a); }
    friend bool operator>=(const ElemW& a, const ElemW& b) { return !(a < b); }
    friend bool operator==(const ElemW& a, const ElemW& b) { return a.key == b.key; }
    friend bool operator!=(const ElemW& a, const ElemW& b) { return a.key != b.key; }
};

// write counters exist on ElemW only; ElemT16 (heap-owning, registered in the ledger) is there so that
// every construction / assignment / destruction the merge performs on its temporaries is checked
template <typename E> static auto nwrites_of(const E& e, int) -> decltype(e.nwrites()) { return e.nwrites(); }
template <typename E> static unsigned nwrites_of(const E&, long) { return ~0u; }

static const char* MWMA[4] = { "LOSER_TREE", "COMBINED", "SENTINEL", "BUBBLE" };
static uint64_t g_merges = 0;

template <typename E, typename Cmp>
static void one(const Shape& sh, Cmp cmp, int algo, bool stable, bool sentinels, int split, size_t threads, bool forced) {
    Inputs<E> in;
    in.build(sh, sentinels);
    std::vector<E> out(sh.length + 3);
    for (auto& e : out) e.set(-999, CANARY_SEQ, 0);
    tlx::MultiwayMergeAlgorithm mwma = (tlx::MultiwayMergeAlgorithm)algo;
    tlx::MultiwayMergeSplittingAlgorithm mwmsa = split ? tlx::MWMSA_SAMPLING : tlx::MWMSA_EXACT;
    tlx::parallel_multiway_merge_force_parallel = forced;
    E* ret;
    typedef long D;
    std::string variant = std::string(stable ? "stable_" : "") + "parallel_multiway_merge" + (sentinels ? "_sentinels" : "");
    verif::context() = stable ? (sentinels ? "stable_parallel_multiway_merge_sentinels" : "stable_parallel_multiway_merge") : (sentinels ? "parallel_multiway_merge_sentinels" : "parallel_multiway_merge");
    if (stable && sentinels)
        ret = tlx::stable_parallel_multiway_merge_sentinels(in.seqs.begin(), in.seqs.end(), out.data(), (D)sh.length, cmp, mwma, mwmsa, threads);
    else if (stable)
        ret = tlx::stable_parallel_multiway_merge(in.seqs.begin(), in.seqs.end(), out.data(), (D)sh.length, cmp, mwma, mwmsa, threads);
    else if (sentinels)
        ret = tlx::parallel_multiway_merge_sentinels(in.seqs.begin(), in.seqs.end(), out.data(), (D)sh.length, cmp, mwma, mwmsa, threads);
    else
        ret = tlx::parallel_multiway_merge(in.seqs.begin(), in.seqs.end(), out.data(), (D)sh.length, cmp, mwma, mwmsa, threads);
    ++g_merges;
    std::string detail;
    std::string why = check_result(sh, in, out, (size_t)(ret - out.data()), stable, detail);
    if (why.empty()) {
        for (size_t i = 0; i < out.size(); ++i) {
            unsigned w = nwrites_of(out[i], 0), want = i < sh.length ? 1 : 0;
            if (w != ~0u && w != want) { why = "writes-per-position"; detail = "output[" + std::to_string(i) + "] was written " + std::to_string(w) + " time(s)"; break; }
        }
    }
    std::string cfg = std::string(split ? "SAMPLING" : "EXACT") + ":" + MWMA[algo] + ":" + E::name();
    if (!why.empty())
        verif::fail("C07:" + variant + ":" + (split ? "SAMPLING" : "EXACT") + ":" + why,
                    variant + " " + cfg + " threads=" + std::to_string(threads) + (forced ? " (forced parallel)" : "") + ": " + detail + "; " + sh.str());
    bool par = forced || (threads > 1 && sh.k >= tlx::parallel_multiway_merge_minimal_k && sh.length >= tlx::parallel_multiway_merge_minimal_n);
    std::string tc = threads == 1 ? "1" : threads <= 4 ? "2-4" : threads <= 16 ? "5-16" : "17+";
    verif::cover(variant + ":" + cfg + ":threads=" + tc + ":" + sh.len_class + (par ? ":parallel" : ":sequential-fallback") + (sh.universe <= 4 ? ":heavy-ties" : ""));
    if (par) verif::count("parallel_merges");
    if (par && threads > sh.length) verif::count("merges_with_more_threads_than_elements");
    if (par && sh.length < sh.total) verif::count("parallel_merges_with_partial_length");
    if (par && sh.universe == 1) verif::count("parallel_merges_all_keys_equal");
}

template <typename E>
static void some(Rng& rng, const Shape& sh, int reps) {
    for (int r = 0; r < reps; ++r) {
        int algo = (int)rng.below(4), split = (int)rng.below(2);
        bool stable = rng.coin(), sentinels = rng.chance(1, 4);
        size_t threads = rng.pick(std::vector<size_t>{ 1, 2, 2, 3, 4, 5, 7, 8, 16, 32 });
        bool forced = !rng.chance(1, 5);
        tlx::parallel_multiway_merge_oversampling = rng.pick(std::vector<size_t>{ 1, 2, 10 });
        if (sh.descending) one<E>(sh, KeyGreater<E>(), algo, stable, sentinels, split, threads, forced);
        else one<E>(sh, KeyLess<E>(), algo, stable, sentinels, split, threads, forced);
    }
}

static void run_case(Rng& rng, uint64_t) {
    uint64_t m0 = g_merges;
    for (int r = 0; r < 12; ++r) {
        Shape sh = make_shape(rng, 33, 4000);
        if (verif::want_sample(3)) verif::sample(sh.str());
        some<ElemW<0> >(rng, sh, 3);
        some<ElemW<6> >(rng, sh, 2);
        {
            uint64_t live0 = verif::Ledger::get().live_count();
            some<ElemT16>(rng, sh, 2);
            if (verif::Ledger::get().live_count() != live0)
                verif::fail("C07:ledger:leaked-or-double-destroyed", "live ledger objects " + std::to_string(live0) + " before and " +
                            std::to_string(verif::Ledger::get().live_count()) + " after parallel merges of ElemT16; " + sh.str());
        }
        verif::count("shapes");
        if (sh.n_empty) verif::count("shapes_with_empty_sequences");
    }
    verif::count("merges_checked", g_merges - m0);
}

static void init() { verif::property_id() = "C07"; verif::Ledger::get().prop = "C07"; }
VERIF_MAIN_INIT(run_case, init)
