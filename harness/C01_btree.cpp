// C01 / C02: tlx B+ tree containers driven in lock-step with the std ordered containers.
//
// Compile-time configuration (one translation unit per node-capacity pair):
//   -DVERIF_LEAF=<leaf slots> -DVERIF_INNER=<inner slots>
// Inside a TU: set / multiset / map / multimap x {less, greater, stateful table order}
// x {binary, linear in-node search} x key types {int, std::string, Tracked}.
//
// Run-time parameters: prop=C01|C02, inv=0|1
//   inv=0 (C01): differential monitor only - every return value / iterator rank /
//                contents compared with the std container after every operation.
//   inv=1 (C02): after every mutating operation additionally tree.verify(), an
//                independent structure walker (through TLX_BTREE_FRIENDS), allocator
//                accounting (arena-checking allocator) and the element-lifetime ledger.
//                A differential mismatch in this mode only stops the history (it is
//                C01's business) - invariants are what is reported.
#include <iostream>   // before btree.hpp: TLX_BTREE_DEBUG pulls <iostream> in from inside namespace tlx

#include <verif.hpp>
#include <tracked.hpp>

#include <map>
#include <memory>
#include <set>
#include <string>

namespace tlx { struct verif_btree_spy; }
#define TLX_BTREE_FRIENDS friend struct ::tlx::verif_btree_spy

#include <tlx/container/btree_map.hpp>
#include <tlx/container/btree_multimap.hpp>
#include <tlx/container/btree_multiset.hpp>
#include <tlx/container/btree_set.hpp>
#include <tlx/die.hpp>

#ifndef VERIF_LEAF
#define VERIF_LEAF 4
#endif
#ifndef VERIF_INNER
#define VERIF_INNER 4
#endif

using verif::Rng;
using verif::Tracked;

static std::string g_prop = "C01";
static bool g_inv = false;

/******************************************************************************/
// structure walker through the friend hook

namespace tlx {
struct verif_btree_spy {
    struct Info {
        size_t height = 0, leaves = 0, inner = 0, size = 0;
        std::string error;   // first invariant violated ("" = fine)
    };

    template <typename Facade>
    static typename Facade::btree_impl& impl(Facade& f) { return f.tree_; }

    //! O(1): shape as the tree itself reports it
    template <typename BT>
    static Info shape(const BT& t) {
        Info i;
        i.height = t.root_ ? t.root_->level + 1 : 0;
        i.leaves = t.stats_.leaves; i.inner = t.stats_.inner_nodes; i.size = t.stats_.size;
        return i;
    }

    template <typename BT>
    static Info walk(const BT& t) {
        Info info;
        typedef typename BT::node node;
        typedef typename BT::LeafNode LeafNode;
        typedef typename BT::InnerNode InnerNode;
        typedef typename BT::key_type key_type;
        auto fail = [&](const std::string& e) { if (info.error.empty()) info.error = e; };
        if (!t.root_) {
            if (t.stats_.size != 0) fail("root-null-but-size-nonzero");
            if (t.head_leaf_ || t.tail_leaf_) fail("root-null-but-leaf-chain-set");
            if (t.stats_.leaves != 0 || t.stats_.inner_nodes != 0) fail("root-null-but-node-counts-nonzero");
            return info;
        }
        if (t.stats_.size == 0) fail("root-set-but-size-zero");
        std::vector<const LeafNode*> leaves_inorder;
        // recursive descent with explicit lambda
        struct Rec {
            const BT& t; Info& info; std::vector<const LeafNode*>& lv;
            std::function<void(const std::string&)> fail;
            // returns (minkey ptr, maxkey ptr) of the subtree
            std::pair<const key_type*, const key_type*> go(const node* n, size_t depth, size_t& leaf_depth) {
                if (n->is_leafnode()) {
                    const LeafNode* leaf = static_cast<const LeafNode*>(n);
                    if (leaf_depth == (size_t)-1) leaf_depth = depth;
                    else if (leaf_depth != depth) fail("leaves-at-different-depth");
                    ++info.leaves;
                    info.size += leaf->slotuse;
                    lv.push_back(leaf);
                    if (leaf->slotuse == 0) { fail("empty-leaf"); return { nullptr, nullptr }; }
                    if (leaf->slotuse > BT::leaf_slotmax) { fail("leaf-overfull"); return { nullptr, nullptr }; }
                    if (n != t.root_ && leaf->slotuse < BT::leaf_slotmin) fail("leaf-underfull");
                    for (unsigned s = 0; s + 1 < leaf->slotuse; ++s) {
                        if (t.key_less(leaf->key(s + 1), leaf->key(s))) fail("leaf-keys-out-of-order");
                        if (!BT::allow_duplicates && !t.key_less(leaf->key(s), leaf->key(s + 1))) fail("duplicate-key-in-unique-tree");
                    }
                    return { &leaf->key(0), &leaf->key(leaf->slotuse - 1) };
                }
                const InnerNode* in = static_cast<const InnerNode*>(n);
                ++info.inner;
                if (in->slotuse == 0) { fail("empty-inner-node"); return { nullptr, nullptr }; }
                if (in->slotuse > BT::inner_slotmax) { fail("inner-overfull"); return { nullptr, nullptr }; }
                if (n != t.root_ && in->slotuse < BT::inner_slotmin) fail("inner-underfull");
                const key_type *mn = nullptr, *mx = nullptr;
                for (unsigned s = 0; s <= in->slotuse; ++s) {
                    const node* c = in->childid[s];
                    if (!c) { fail("null-child"); return { nullptr, nullptr }; }
                    if (c->level + 1 != in->level) fail("child-level-mismatch");
                    auto r = go(c, depth + 1, leaf_depth);
                    if (!r.first) return { nullptr, nullptr };
                    if (s == 0) mn = r.first;
                    else if (t.key_less(*r.first, in->slotkey[s - 1])) fail("child-min-below-separator");
                    if (s == in->slotuse) mx = r.second;
                    else if (t.key_less(*r.second, in->slotkey[s]) || t.key_less(in->slotkey[s], *r.second))
                        fail("separator-not-max-of-child");
                    if (s + 1 < in->slotuse && t.key_less(in->slotkey[s + 1], in->slotkey[s])) fail("inner-keys-out-of-order");
                }
                return { mn, mx };
            }
        };
        size_t leaf_depth = (size_t)-1;
        Rec rec{ t, info, leaves_inorder, fail };
        rec.go(t.root_, 0, leaf_depth);
        info.height = t.root_->level + 1;
        if (leaf_depth != (size_t)-1 && leaf_depth != t.root_->level) fail("root-level-not-equal-depth");
        // leaf chain forward and backward == in-order leaves
        {
            const LeafNode* n = t.head_leaf_;
            size_t i = 0;
            const LeafNode* prev = nullptr;
            while (n && i < leaves_inorder.size()) {
                if (n != leaves_inorder[i]) { fail("leaf-chain-forward-differs-from-inorder"); break; }
                if (n->prev_leaf != prev) { fail("prev-link-inconsistent"); break; }
                prev = n; n = n->next_leaf; ++i;
            }
            if (info.error.empty() && (n || i != leaves_inorder.size())) fail("leaf-chain-forward-length");
            if (info.error.empty() && t.tail_leaf_ != prev) fail("tail-leaf-wrong");
            n = t.tail_leaf_; i = leaves_inorder.size();
            while (n && i > 0) {
                if (n != leaves_inorder[i - 1]) { fail("leaf-chain-backward-differs-from-inorder"); break; }
                n = n->prev_leaf; --i;
            }
            if (info.error.empty() && (n || i != 0)) fail("leaf-chain-backward-length");
            // keys across leaves
            for (size_t k = 0; k + 1 < leaves_inorder.size(); ++k) {
                const LeafNode* a = leaves_inorder[k];
                const LeafNode* b = leaves_inorder[k + 1];
                if (a->slotuse && b->slotuse) {
                    if (t.key_less(b->key(0), a->key(a->slotuse - 1))) fail("keys-out-of-order-across-leaves");
                    if (!BT::allow_duplicates && !t.key_less(a->key(a->slotuse - 1), b->key(0))) fail("duplicate-key-across-leaves");
                }
            }
        }
        if (info.size != t.stats_.size) fail("stats-size-mismatch");
        if (info.leaves != t.stats_.leaves) fail("stats-leaves-mismatch");
        if (info.inner != t.stats_.inner_nodes) fail("stats-inner-nodes-mismatch");
        return info;
    }
};
} // namespace tlx
typedef tlx::verif_btree_spy Spy;

/******************************************************************************/
// key types and orders

template <typename K> struct KeyMaker;
template <> struct KeyMaker<int> {
    static int make(int i) { return i; }
    static int id(const int& k) { return k; }
    static const char* name() { return "int"; }
};
template <> struct KeyMaker<std::string> {
    static std::string make(int i) { char b[64]; snprintf(b, sizeof(b), "key-%07d-padding-to-leave-the-sso-buffer", i); return b; }
    static int id(const std::string& k) { return atoi(k.c_str() + 4); }
    static const char* name() { return "string"; }
};
template <> struct KeyMaker<Tracked> {
    static Tracked make(int i) { return Tracked(i, i * 7); }
    static int id(const Tracked& k) { return k.key; }
    static const char* name() { return "Tracked"; }
};

template <typename K> struct OrdLess {
    bool operator()(const K& a, const K& b) const { return KeyMaker<K>::id(a) < KeyMaker<K>::id(b); }
    static const char* name() { return "less"; }
};
template <typename K> struct OrdGreater {
    bool operator()(const K& a, const K& b) const { return KeyMaker<K>::id(a) > KeyMaker<K>::id(b); }
    static const char* name() { return "greater"; }
};
//! stateful comparator: orders by a permutation table it carries
static std::vector<int> g_table, g_table2;   // two different states of the stateful comparator
template <typename K> struct OrdTable {
    const std::vector<int>* tab;
    OrdTable() : tab(&g_table) {}
    explicit OrdTable(const std::vector<int>* t) : tab(t) {}
    int rank(int id) const { return (size_t)id < tab->size() ? (*tab)[id] : id; }
    bool operator()(const K& a, const K& b) const { return rank(KeyMaker<K>::id(a)) < rank(KeyMaker<K>::id(b)); }
    static const char* name() { return "table"; }
};

//! a comparator object for a fresh container: stateful orders get one of two states, so that the two
//! live containers of a history may disagree and assignment / swap have to carry the state along
template <typename C> struct CmpFactory { static C make(verif::Rng&) { return C(); } };
template <typename K> struct CmpFactory<OrdTable<K> > {
    static OrdTable<K> make(verif::Rng& rng) { return OrdTable<K>(rng.coin() ? &g_table : &g_table2); }
};

template <size_t BinThr>
struct MyTraits {
    static const bool self_verify = false;
    static const bool debug = false;
    static const int leaf_slots = VERIF_LEAF;
    static const int inner_slots = VERIF_INNER;
    static const size_t binsearch_threshold = BinThr;
};

enum Kind { SET, MSET, MAP, MMAP };
static const char* KIND[4] = { "set", "multiset", "map", "multimap" };

template <Kind KD, typename K, typename D, typename Cmp, size_t BinThr> struct Types;
template <typename K, typename D, typename Cmp, size_t B> struct Types<SET, K, D, Cmp, B> {
    typedef K value_type;
    typedef tlx::btree_set<K, Cmp, MyTraits<B>, verif::ArenaAlloc<K> > T;
    typedef std::set<K, Cmp> M;
};
template <typename K, typename D, typename Cmp, size_t B> struct Types<MSET, K, D, Cmp, B> {
    typedef K value_type;
    typedef tlx::btree_multiset<K, Cmp, MyTraits<B>, verif::ArenaAlloc<K> > T;
    typedef std::multiset<K, Cmp> M;
};
template <typename K, typename D, typename Cmp, size_t B> struct Types<MAP, K, D, Cmp, B> {
    typedef std::pair<K, D> value_type;
    typedef tlx::btree_map<K, D, Cmp, MyTraits<B>, verif::ArenaAlloc<std::pair<K, D> > > T;
    typedef std::map<K, D, Cmp> M;
};
template <typename K, typename D, typename Cmp, size_t B> struct Types<MMAP, K, D, Cmp, B> {
    typedef std::pair<K, D> value_type;
    typedef tlx::btree_multimap<K, D, Cmp, MyTraits<B>, verif::ArenaAlloc<std::pair<K, D> > > T;
    typedef std::multimap<K, D, Cmp> M;
};

/******************************************************************************/

static uint64_t g_ops = 0, g_inv_checks = 0, g_walk_nodes = 0;

struct Mismatch {};   // thrown to abandon a history

template <Kind KD, typename K, typename D, typename Cmp, size_t BinThr>
struct Driver {
    typedef Types<KD, K, D, Cmp, BinThr> TY;
    typedef typename TY::T T;
    typedef typename TY::M M;
    typedef typename TY::value_type V;
    typedef KeyMaker<K> KM;
    static const bool is_map = (KD == MAP || KD == MMAP);
    static const bool is_multi = (KD == MSET || KD == MMAP);

    struct Pair {
        std::unique_ptr<T> t;
        std::unique_ptr<M> m;
    };
    Pair c[2];
    Rng& rng;
    int universe;
    std::string cfg;
    std::vector<std::string> trace;
    int next_arena = 1;
    int data_counter = 1;
    Spy::Info before;

    explicit Driver(Rng& r) : rng(r) {
        cfg = std::string(KIND[KD]) + "<" + KM::name() + "," + Cmp::name() + ">:" +
              std::to_string(VERIF_LEAF) + "/" + std::to_string(VERIF_INNER) + (BinThr == 0 ? ":binary" : ":linear");
    }

    static const K& key_of(const V& v) { if constexpr (is_map) return v.first; else return v; }
    V make_value(int id) {
        if constexpr (is_map) {
            if constexpr (std::is_same<D, Tracked>::value) return V(KM::make(id), Tracked(data_counter++, 1));
            else return V(KM::make(id), D(data_counter++));
        }
        else return KM::make(id);
    }
    static std::string show(const V& v) {
        if constexpr (is_map) {
            if constexpr (std::is_same<D, Tracked>::value) return std::to_string(KM::id(v.first)) + "=>" + std::to_string(v.second.key);
            else return std::to_string(KM::id(v.first)) + "=>" + std::to_string(v.second);
        }
        else return std::to_string(KM::id(v));
    }
    static bool same(const V& a, const V& b) {
        if constexpr (is_map) return KM::id(a.first) == KM::id(b.first) && a.second == b.second;
        else return KM::id(a) == KM::id(b);
    }
    //! for ordering values inside an equal-key run (multimap canonical form)
    static long data_id(const V& v) {
        if constexpr (is_map) {
            if constexpr (std::is_same<D, Tracked>::value) return v.second.key;
            else return (long)v.second;
        }
        else return 0;
    }

    [[noreturn]] void diff(const std::string& what, const std::string& detail) {
        if (!g_inv) {
            std::string tr;
            size_t from = trace.size() > 25 ? trace.size() - 25 : 0;
            for (size_t i = from; i < trace.size(); ++i) tr += trace[i] + "; ";
            verif::fail(g_prop + ":diff:" + what, cfg + " " + what + ": " + detail + " | last ops: " + tr);
        }
        else verif::count("histories_stopped_on_differential_mismatch");
        throw Mismatch();
    }
    void inv_fail(const std::string& what, const std::string& detail) {
        std::string tr;
        size_t from = trace.size() > 25 ? trace.size() - 25 : 0;
        for (size_t i = from; i < trace.size(); ++i) tr += trace[i] + "; ";
        verif::fail(g_prop + ":" + what, cfg + " " + what + ": " + detail + " | last ops: " + tr);
        throw Mismatch();
    }

    std::vector<V> contents_t(const T& t) {
        std::vector<V> v;
        for (auto it = t.begin(); it != t.end(); ++it) v.push_back(*it);
        return v;
    }
    std::vector<V> contents_m(const M& m) {
        std::vector<V> v;
        for (auto it = m.begin(); it != m.end(); ++it) v.push_back(V(*it));
        return v;
    }
    void canon(std::vector<V>& v, const Cmp& cmp) {
        if constexpr (KD == MMAP) {
            size_t i = 0;
            while (i < v.size()) {
                size_t j = i + 1;
                while (j < v.size() && !cmp(key_of(v[i]), key_of(v[j])) && !cmp(key_of(v[j]), key_of(v[i]))) ++j;
                std::sort(v.begin() + i, v.begin() + j, [](const V& a, const V& b) { return data_id(a) < data_id(b); });
                i = j;
            }
        }
    }

    //! full comparison: size, forward and reverse iteration
    void compare_all(int w, const char* after) {
        T& t = *c[w].t; M& m = *c[w].m;
        if (t.size() != m.size()) diff("size", std::string(after) + ": tlx " + std::to_string(t.size()) + " std " + std::to_string(m.size()));
        if (t.empty() != m.empty()) diff("empty", after);
        const T& ct = t;
        std::vector<V> a = contents_t(ct), b = contents_m(m);
        if (a.size() != b.size()) diff("iteration-length", std::string(after) + ": forward iteration yields " + std::to_string(a.size()) + " entries, std " + std::to_string(b.size()));
        Cmp cmp = m.key_comp();
        canon(a, cmp); canon(b, cmp);
        for (size_t i = 0; i < a.size(); ++i)
            if (!same(a[i], b[i])) diff("contents", std::string(after) + ": entry " + std::to_string(i) + " tlx " + show(a[i]) + " std " + show(b[i]));
        // reverse iteration must be the exact reverse of forward iteration
        std::vector<V> r;
        for (auto it = t.rbegin(); it != t.rend(); ++it) r.push_back(*it);
        std::vector<V> f = contents_t(t);
        if (r.size() != f.size()) diff("reverse-iteration-length", after);
        for (size_t i = 0; i < f.size(); ++i)
            if (!same(f[i], r[f.size() - 1 - i])) diff("reverse-iteration", std::string(after) + ": position " + std::to_string(i));
        // and decrementing end() step by step
        if (!f.empty() && rng.chance(1, 4)) {
            auto it = t.end();
            for (size_t i = f.size(); i-- > 0;) {
                --it;
                if (!same(*it, f[i])) diff("iterator-decrement", std::string(after) + ": position " + std::to_string(i));
            }
            if (it != t.begin()) diff("iterator-decrement", "did not reach begin()");
        }
    }

    void invariants(int w, const char* after) {
        if (!g_inv) return;
        T& t = *c[w].t;
        ++g_inv_checks;
        try { t.verify(); }
        catch (tlx::DieException& e) {
            std::string msg = e.what();
            size_t p = msg.find("DIE: ");
            inv_fail("verify", std::string(after) + ": " + (p != std::string::npos ? msg.substr(p, 140) : msg.substr(0, 140)));
        }
        Spy::Info info = Spy::walk(Spy::impl(t));
        g_walk_nodes += info.leaves + info.inner;
        if (!info.error.empty()) inv_fail("walker:" + info.error, after);
        // allocator accounting: live blocks of all live trees == their node counts
        size_t nodes = 0;
        for (int i = 0; i < 2; ++i) {
            Spy::Info x = i == w ? info : Spy::walk(Spy::impl(*c[i].t));
            nodes += x.leaves + x.inner;
        }
        size_t live = verif::ArenaRegistry::get().live_blocks();
        if (live != nodes)
            inv_fail("alloc:live-nodes-mismatch", std::string(after) + ": allocator has " + std::to_string(live) +
                     " live blocks, trees have " + std::to_string(nodes) + " nodes");
        if (verif::ArenaRegistry::get().errors || verif::Ledger::get().errors) throw Mismatch();
    }
    void note_effect(const Spy::Info& now, const char* after) {
        std::string eff;
        if (now.height > before.height) eff = "root-split/grow";
        else if (now.height < before.height) eff = "root-collapse";
        else if (now.inner > before.inner) eff = "inner-split";
        else if (now.inner < before.inner) eff = "inner-merge";
        else if (now.leaves > before.leaves) eff = "leaf-split";
        else if (now.leaves < before.leaves) eff = "leaf-merge";
        else eff = "in-place";
        verif::cover(cfg + ":" + after + ":" + eff);
        verif::count("effect:" + eff);
        verif::count_max("tree_height", now.height);
        verif::count_max("tree_size", now.size);
    }
    void snapshot(int w) { before = Spy::shape(Spy::impl(*c[w].t)); before_w = w; }
    int before_w = 0;

    template <typename TT, typename MM, typename TI, typename MI>
    void same_pos(TT& t, MM& m, TI ti, MI mi, const std::string& what) {
        // rank comparison: the strongest form of "same iterator position"
        size_t rt = 0, rm = std::distance(m.begin(), mi);
        auto x = t.begin();
        while (x != ti && x != t.end()) { ++x; ++rt; }
        if (x != ti) diff(what, "iterator not reachable from begin()");
        if (rt != rm) diff(what, "tlx rank " + std::to_string(rt) + " std rank " + std::to_string(rm));
    }

    int pick_id() {
        int id = (int)rng.below(universe);
        return id;
    }

    void build_fresh(int w) {
        int arena = next_arena++;
        Cmp cmp = CmpFactory<Cmp>::make(rng);
        c[w].t.reset(new T(cmp, verif::ArenaAlloc<V>(arena)));
        c[w].m.reset(new M(cmp));
    }

    void op(int w) {
        T& t = *c[w].t; M& m = *c[w].m;
        const T& ct = t; const M& cm = m;
        Cmp cmp = m.key_comp();
        ++g_ops;
        snapshot(w);
        unsigned r = (unsigned)rng.below(100);
        unsigned grow = phase == 0 ? 45 : phase == 1 ? 15 : 30;
        unsigned shrink = phase == 0 ? 15 : phase == 1 ? 45 : 30;
        if (r < grow) {                                   // insert
            int id = pick_id();
            V v = make_value(id);
            unsigned how = (unsigned)rng.below(10);
            if (how < 7 && !t.empty() && rng.chance(1, 6)) {
                // insert a value that is passed as a reference to an entry stored in the tree itself
                auto src = t.lower_bound(key_of(v));
                if (src == t.end()) src = t.begin();
                // not necessarily the first entry of a run of equivalent keys
                for (size_t adv = rng.below(4); adv > 0; --adv) { auto nx = src; ++nx; if (nx == t.end()) break; src = nx; }
                const V copy = *src;
                trace.push_back("insert(reference to the stored entry " + show(copy) + ")");
                verif::count("ops_with_argument_inside_the_tree");
                if constexpr (!is_multi) {
                    auto rt = t.insert(*src);
                    auto rm = m.insert(copy);
                    if (rt.second != rm.second) diff("insert.second", show(copy));
                    if (!same(*rt.first, V(*rm.first))) diff("insert.first", show(copy));
                }
                else {
                    auto it = t.insert(*src);
                    m.insert(copy);
                    if (!same(*it, copy)) diff("insert-result", show(copy) + " -> " + show(*it));
                    in_run(t, m, it, key_of(copy), "insert-position");
                }
                post(w, "insert-aliased");
            }
            else if (how < 7) {
                // maps: half of the time through insert2(key, data)
                bool two = false;
                if constexpr (is_map) two = rng.coin();
                trace.push_back(std::string(two ? "insert2(" : "insert(") + show(v) + ")");
                if constexpr (!is_multi) {
                    auto do_insert = [&]() {
                        if constexpr (is_map) { if (two) return t.insert2(v.first, v.second); }
                        return t.insert(v);
                    };
                    auto rt = do_insert();
                    auto rm = m.insert(v);
                    if (rt.second != rm.second) diff("insert.second", show(v));
                    if (!same(*rt.first, V(*rm.first))) diff("insert.first", show(v) + " -> tlx " + show(*rt.first) + " std " + show(V(*rm.first)));
                    same_pos(t, m, rt.first, rm.first, "insert-position");
                }
                else {
                    auto it = t.end();
                    if constexpr (is_map) { if (two) it = t.insert2(v.first, v.second); else it = t.insert(v); }
                    else it = t.insert(v);
                    m.insert(v);
                    if (!same(*it, v)) diff("insert-result", show(v) + " -> " + show(*it));
                    in_run(t, m, it, key_of(v), "insert-position");
                }
                post(w, "insert");
            }
            else if (how < 9) {                            // hinted insert
                trace.push_back("insert(hint," + show(v) + ")");
                // hints: wrong ones (begin, end, a random position) and right ones (the successor, the
                // predecessor - also when it is the last entry of its leaf -, the end of the equal run)
                auto hint_t = t.begin();
                switch (rng.below(7)) {
                case 0: break;
                case 1: hint_t = t.end(); break;
                case 2: hint_t = t.lower_bound(key_of(v)); break;
                case 3: hint_t = t.upper_bound(key_of(v)); break;
                case 4: case 5: hint_t = t.lower_bound(key_of(v)); if (hint_t != t.begin()) --hint_t; break;
                default: { size_t steps = t.size() ? rng.below(t.size() + 1) : 0; if (steps > 40) steps = 40 + steps % 7; for (size_t q = 0; q < steps && hint_t != t.end(); ++q) ++hint_t; break; }
                }
                auto it = t.end();
                if constexpr (is_map) { if (rng.coin()) { trace.back() += " as insert2(hint, key, data)"; it = t.insert2(hint_t, v.first, v.second); } else it = t.insert(hint_t, v); }
                else it = t.insert(hint_t, v);
                if constexpr (!is_multi) {
                    auto rm = m.insert(v);
                    if (!same(*it, V(*rm.first))) diff("insert(hint)", show(v));
                }
                else {
                    m.insert(v);
                    if (!same(*it, v)) diff("insert(hint)", show(v));
                }
                post(w, "insert-hint");
            }
            else {                                          // range insert
                std::vector<V> vs;
                size_t n = rng.below(12);
                for (size_t i = 0; i < n; ++i) vs.push_back(make_value(pick_id()));
                trace.push_back("insert(range of " + std::to_string(n) + ")");
                t.insert(vs.begin(), vs.end());
                m.insert(vs.begin(), vs.end());
                post(w, "insert-range");
            }
        }
        else if (r < grow + shrink) {                       // erase
            unsigned how = (unsigned)rng.below(10);
            int id = pick_id();
            K key = KM::make(id);
            // one time in four the key argument is a reference to the key stored inside the tree
            // (s.erase(*s.begin()) style), which the std containers support
            auto alias_it = t.find(key);
            const bool alias = alias_it != t.end() && rng.chance(1, 4);
            const K& karg = alias ? alias_it.key() : key;
            if (alias) verif::count("ops_with_argument_inside_the_tree");
            if (how < 3) {
                trace.push_back(std::string("erase(key ") + std::to_string(id) + (alias ? ", passed as a reference into the tree)" : ")"));
                size_t nt = t.erase(karg), nm = m.erase(key);
                if (nt != nm) diff("erase(key)", "tlx " + std::to_string(nt) + " std " + std::to_string(nm));
                post(w, "erase-key");
            }
            else if (how < 6) {
                trace.push_back(std::string("erase_one(") + std::to_string(id) + (alias ? ", passed as a reference into the tree)" : ")"));
                bool bt = t.erase_one(karg);
                bool bm = cm.find(key) != cm.end();
                if (bt != bm) diff("erase_one", std::to_string(id));
                if (bm) resync_after_single_erase(t, m, key);
                post(w, "erase_one");
            }
            else if (!m.empty()) {
                // erase(iterator): at a random rank near a random key, often inside duplicate runs
                auto it = t.lower_bound(key);
                size_t steps = rng.below(6);
                for (size_t i = 0; i < steps && it != t.end(); ++i) ++it;
                if (it == t.end()) { it = t.begin(); size_t s2 = rng.below(std::min<size_t>(t.size(), 8)); for (size_t i = 0; i < s2; ++i) ++it; }
                V victim = *it;
                trace.push_back("erase(iterator at " + show(victim) + ")");
                t.erase(it);
                // remove the same entry from the model
                auto range = m.equal_range(key_of(victim));
                bool done = false;
                for (auto mi = range.first; mi != range.second; ++mi)
                    if (same(V(*mi), victim)) { m.erase(mi); done = true; break; }
                if (!done) diff("erase(iterator)", "erased entry " + show(victim) + " not in the model");
                post(w, "erase-iterator");
                // the separators above the erased position must route the erased key past it
                { K vk = key_of(victim);
                  trace.push_back("lower_bound/upper_bound/find of the key just erased");
                  same_pos(t, m, t.lower_bound(vk), m.lower_bound(vk), "lower_bound-after-erase-iterator");
                  same_pos(t, m, t.upper_bound(vk), m.upper_bound(vk), "upper_bound-after-erase-iterator");
                  if ((ct.find(vk) == ct.end()) != (cm.find(vk) == cm.end())) diff("find-after-erase-iterator", show(victim));
                  verif::count("probes_after_erase_iterator"); }
            }
        }
        else if (r < 88) {                                  // queries
            int id = pick_id();
            if (rng.chance(1, 6)) id = universe + (int)rng.below(3);   // beyond every stored key
            K key = KM::make(id);
            unsigned q = (unsigned)rng.below(12);
            switch (q) {
            case 0: {
                trace.push_back("find(" + std::to_string(id) + ")");
                auto it = t.find(key); auto mi = m.find(key);
                if ((it == t.end()) != (mi == m.end())) diff("find", std::to_string(id));
                if (it != t.end()) { if (KM::id(key_of(*it)) != id) diff("find", "wrong key"); in_run(t, m, it, key, "find-position"); }
                break;
            }
            case 1: {
                trace.push_back("const find(" + std::to_string(id) + ")");
                auto it = ct.find(key); auto mi = cm.find(key);
                if ((it == ct.end()) != (mi == cm.end())) diff("find-const", std::to_string(id));
                if (it != ct.end()) { if (KM::id(key_of(*it)) != id) diff("find-const", "wrong key"); in_run(ct, cm, it, key, "find-const-position"); }
                break;
            }
            case 2: trace.push_back("count(" + std::to_string(id) + ")");
                if (ct.count(key) != cm.count(key)) diff("count", std::to_string(id) + ": tlx " + std::to_string(ct.count(key)) + " std " + std::to_string(cm.count(key)));
                break;
            case 3: trace.push_back("exists(" + std::to_string(id) + ")");
                if (ct.exists(key) != (cm.count(key) > 0)) diff("exists", std::to_string(id));
                break;
            case 4: trace.push_back("lower_bound(" + std::to_string(id) + ")");
                same_pos(t, m, t.lower_bound(key), m.lower_bound(key), "lower_bound"); break;
            case 5: trace.push_back("const lower_bound(" + std::to_string(id) + ")");
                same_pos(ct, cm, ct.lower_bound(key), cm.lower_bound(key), "lower_bound-const"); break;
            case 6: trace.push_back("upper_bound(" + std::to_string(id) + ")");
                same_pos(t, m, t.upper_bound(key), m.upper_bound(key), "upper_bound"); break;
            case 7: trace.push_back("const upper_bound(" + std::to_string(id) + ")");
                same_pos(ct, cm, ct.upper_bound(key), cm.upper_bound(key), "upper_bound-const"); break;
            case 8: {
                trace.push_back("equal_range(" + std::to_string(id) + ")");
                auto a = t.equal_range(key); auto b = m.equal_range(key);
                same_pos(t, m, a.first, b.first, "equal_range.first"); same_pos(t, m, a.second, b.second, "equal_range.second");
                size_t n = 0; for (auto it = a.first; it != a.second && n <= t.size(); ++it) ++n;
                if (n != (size_t)std::distance(b.first, b.second)) diff("equal_range-length", std::to_string(id));
                break;
            }
            case 9: {
                trace.push_back("const equal_range(" + std::to_string(id) + ")");
                auto a = ct.equal_range(key); auto b = cm.equal_range(key);
                same_pos(ct, cm, a.first, b.first, "equal_range-const.first"); same_pos(ct, cm, a.second, b.second, "equal_range-const.second");
                size_t n = 0; for (auto it = a.first; it != a.second && n <= ct.size(); ++it) ++n;
                if (n != (size_t)std::distance(b.first, b.second)) diff("equal_range-const-length", std::to_string(id));
                break;
            }
            case 10: {
                if constexpr (KD == MAP) {
                    trace.push_back("operator[](" + std::to_string(id) + ")");
                    if (cm.count(key)) { if (!(t[key] == m[key])) diff("operator[]", std::to_string(id)); }
                    else if (rng.chance(1, 3)) { t[key]; m[key]; post(w, "operator[]-insert"); }
                }
                break;
            }
            default: {
                // whole-container comparison operators against the other container
                trace.push_back("compare containers");
                const T& o = *c[1 - w].t; const M& om = *c[1 - w].m;
                if (KD != MMAP) {   // for multimaps the order inside equal-key runs is unspecified
                    if ((ct == o) != (cm == om)) diff("operator==", "");
                    if ((ct != o) != (cm != om)) diff("operator!=", "");
                    if ((ct < o) != (cm < om)) diff("operator<", "");
                    if ((ct > o) != (cm > om)) diff("operator>", "");
                    if ((ct <= o) != (cm <= om)) diff("operator<=", "");
                    if ((ct >= o) != (cm >= om)) diff("operator>=", "");
                }
                if (!(ct == ct) || (ct != ct) || (ct < ct) || !(ct <= ct)) diff("self-comparison", "");
                break;
            }
            }
        }
        else {                                              // whole-container operations
            unsigned q = (unsigned)rng.below(12);
            int o = 1 - w;
            switch (q) {
            case 0: case 1: {
                trace.push_back("copy-construct other from this");
                c[o].t.reset(); c[o].m.reset();
                c[o].t.reset(new T(t)); c[o].m.reset(new M(m));
                post(o, "copy-construct"); post(w, "copy-source");
                break;
            }
            case 2: case 3: {
                trace.push_back("other = this (assign onto " + std::to_string(c[o].t->size()) + " entries)");
                *c[o].t = t; *c[o].m = m;
                post(o, "assign"); post(w, "assign-source");
                break;
            }
            case 4: {
                trace.push_back("self-assign");
                T& self = t; t = self; M& ms = m; m = ms;
                post(w, "self-assign");
                break;
            }
            case 5: case 6: {
                trace.push_back("swap");
                if (rng.coin()) t.swap(*c[o].t); else std::swap(t, *c[o].t);
                m.swap(*c[o].m);
                post(w, "swap"); post(o, "swap");
                break;
            }
            case 7: {
                trace.push_back("clear");
                t.clear(); m.clear();
                post(w, "clear");
                break;
            }
            case 8: case 9: case 10: {
                // bulk_load into an empty tree, N around multiples of the node capacities
                const size_t L = VERIF_LEAF, I = VERIF_INNER;
                static const int dm[7] = { -1, 0, 1, 0, 0, 1, -1 };
                size_t pick = rng.below(10), N;
                switch (pick) {
                case 0: N = 0; break; case 1: N = 1; break;
                case 2: N = L + dm[rng.below(3)]; break;
                case 3: N = 2 * L + dm[rng.below(3)]; break;
                case 4: N = L * (I + 1) + dm[rng.below(3)]; break;
                case 5: N = L * (I + 1) * (I + 1) + dm[rng.below(3)]; break;
                case 6: N = (L / 2) * (I + 1) + rng.below(3); break;
                default: N = rng.below(40 * L); break;
                }
                if (N > 1500) N = 1500;
                std::vector<V> vs;
                for (size_t i = 0; i < N; ++i) vs.push_back(make_value(is_multi ? (int)rng.below(std::max<size_t>(1, N / 2 + 1)) : (int)i));
                std::stable_sort(vs.begin(), vs.end(), [&](const V& a, const V& b) { return cmp(key_of(a), key_of(b)); });
                trace.push_back("clear + bulk_load(" + std::to_string(vs.size()) + ")");
                t.clear(); m.clear();
                t.bulk_load(vs.begin(), vs.end());
                m.insert(vs.begin(), vs.end());
                post(w, "bulk_load");
                break;
            }
            default: {
                trace.push_back("destroy + fresh");
                c[w].t.reset(); c[w].m.reset();
                build_fresh(w);
                post(w, "fresh");
                break;
            }
            }
        }
    }

    //! it must lie in [lower_bound(key), upper_bound(key)) of t, and m must have that key
    template <typename TT, typename MM, typename TI>
    void in_run(TT& t, MM& m, TI it, const K& key, const std::string& what) {
        if (m.find(key) == m.end()) diff(what, "key not in the model");
        auto lo = t.lower_bound(key), hi = t.upper_bound(key);
        size_t guard = 0;
        for (auto x = lo; x != hi && guard <= t.size(); ++x, ++guard)
            if (x == it) return;
        diff(what, "iterator is outside [lower_bound, upper_bound) of its key");
    }

    //! after erase_one on a multi container: remove from the model the entry tlx removed
    void resync_after_single_erase(T& t, M& m, const K& key) {
        if constexpr (KD != MMAP) {
            m.erase(m.find(key));
        }
        else {
            std::vector<long> a, b;
            auto rt = t.equal_range(key);
            for (auto it = rt.first; it != rt.second; ++it) a.push_back(data_id(*it));
            auto rm = m.equal_range(key);
            for (auto it = rm.first; it != rm.second; ++it) b.push_back(data_id(V(*it)));
            if (a.size() + 1 != b.size()) diff("erase_one", "removed " + std::to_string((long)b.size() - (long)a.size()) + " entries");
            std::sort(a.begin(), a.end());
            std::vector<long> bs = b; std::sort(bs.begin(), bs.end());
            long gone = bs.back();
            for (size_t i = 0; i < a.size(); ++i) if (a[i] != bs[i]) { gone = bs[i]; break; }
            for (auto it = rm.first; it != rm.second; ++it)
                if (data_id(V(*it)) == gone) { m.erase(it); return; }
        }
    }

    void post(int w, const char* after) {
        compare_all(w, after);
        invariants(w, after);
        // structural effect of the operation, for the evidence
        if (w == before_w && c[w].t) note_effect(Spy::shape(Spy::impl(*c[w].t)), after);
    }

    int phase = 0;

    void run() {
        universe = (int)rng.pick(std::vector<int>{ 8, 16, 40, 64, 300, 5000 });
        if (!is_multi && universe < 40) universe = (int)rng.pick(std::vector<int>{ 40, 64, 300, 5000 });
        size_t nops = rng.pick(std::vector<size_t>{ 60, 200, 600, 1500 });
        g_table.resize(5100);
        for (size_t i = 0; i < g_table.size(); ++i) g_table[i] = (int)i;
        std::shuffle(g_table.begin(), g_table.begin() + 5003, rng);
        g_table2 = g_table;
        std::reverse(g_table2.begin(), g_table2.begin() + 5003);
        try {
            build_fresh(0); build_fresh(1);
            // a third of the histories start from a tree built by sequential inserts (every node as
            // empty as the tree allows, several inner levels) and shrink it first: each erase then
            // underflows a leaf, and merges and shifts cascade through the inner levels
            bool seq = universe >= 300 && rng.chance(1, 3);
            if (seq) {
                size_t N = 100 + rng.below((size_t)std::min(universe, 700) - 100);
                bool up = rng.coin();
                trace.push_back("sequential build of " + std::to_string(N) + (up ? " ascending" : " descending") + " ids");
                for (size_t i = 0; i < N; ++i) {
                    V v = make_value((int)(up ? i : N - 1 - i));
                    c[0].t->insert(v); c[0].m->insert(v);
                }
                post(0, "sequential-build");
                verif::count("histories_from_sequential_build");
            }
            for (size_t i = 0; i < nops; ++i) {
                if (i % 150 == 0) phase = (seq && i < 450) ? 1 : (int)rng.below(3);
                if (c[0].m->size() > 900) phase = 1;
                op(rng.chance(3, 4) ? 0 : 1);
                if (verif::case_failed()) break;
            }
            c[0].t.reset(); c[1].t.reset(); c[0].m.reset(); c[1].m.reset();
        }
        catch (Mismatch&) {
            c[0].t.reset(); c[1].t.reset(); c[0].m.reset(); c[1].m.reset();
        }
        if (g_inv) {
            // end of life: everything returned, every element destroyed
            size_t lb = verif::ArenaRegistry::get().live_blocks();
            if (lb != 0 && !verif::case_failed())
                verif::fail(g_prop + ":alloc:leak", cfg + ": " + std::to_string(lb) + " node(s) never returned to the allocator");
            size_t lo = verif::Ledger::get().live_count();
            if (lo != 0 && !verif::case_failed())
                verif::fail(g_prop + ":lifetime:leak", cfg + ": " + std::to_string(lo) + " element(s) never destroyed");
            // do not let one leak poison the following histories
            verif::ArenaRegistry::get().blocks.clear();
            verif::Ledger::get().live.clear();
            verif::ArenaRegistry::get().errors = 0;
            verif::Ledger::get().errors = 0;
        }
        verif::count("histories");
        if (verif::want_sample(2)) {
            std::string s = cfg + ": ";
            for (size_t i = 0; i < trace.size() && i < 14; ++i) s += trace[i] + "; ";
            verif::sample(s + "... (" + std::to_string(trace.size()) + " ops)");
        }
    }
};

template <Kind KD, typename K, typename D, typename Cmp>
static void both_search(Rng& rng) {
    { Driver<KD, K, D, Cmp, 0> d(rng); d.run(); }                        // always binary search
    { Driver<KD, K, D, Cmp, (size_t)1 << 30> d(rng); d.run(); }          // always linear search
}

static void run_case(Rng& rng, uint64_t index) {
    uint64_t o0 = g_ops, i0 = g_inv_checks, w0 = g_walk_nodes;
    // the instantiation matrix of this translation unit; one group per case index
    // VERIF_GROUP selects which part of the matrix this binary contains (compile time
    // of the whole matrix in one TU is ~3 min under ASan)
#ifndef VERIF_GROUP
#define VERIF_GROUP 0
#endif
    (void)index;
#if VERIF_GROUP == 0
    both_search<SET, int, int, OrdLess<int> >(rng);
    both_search<MMAP, int, int, OrdGreater<int> >(rng);
#elif VERIF_GROUP == 1
    both_search<MSET, int, int, OrdLess<int> >(rng);
    both_search<MAP, int, int, OrdGreater<int> >(rng);
#elif VERIF_GROUP == 2
    both_search<MMAP, int, int, OrdLess<int> >(rng);
    both_search<SET, int, int, OrdTable<int> >(rng);
#elif VERIF_GROUP == 3
    both_search<MAP, int, int, OrdLess<int> >(rng);
    both_search<MSET, int, int, OrdGreater<int> >(rng);
#elif VERIF_GROUP == 4
    both_search<MSET, std::string, int, OrdLess<std::string> >(rng);
    both_search<MAP, int, Tracked, OrdLess<int> >(rng);
#else
    both_search<MSET, Tracked, int, OrdLess<Tracked> >(rng);
    both_search<MMAP, std::string, int, OrdTable<std::string> >(rng);
#endif
    verif::count("operations", g_ops - o0);
    verif::count("invariant_checks", g_inv_checks - i0);
    verif::count("walker_node_visits", g_walk_nodes - w0);
    verif::count("ledger_constructed", verif::Ledger::get().constructed);
    verif::count("ledger_destroyed", verif::Ledger::get().destroyed);
    verif::Ledger::get().constructed = verif::Ledger::get().destroyed = 0;
    verif::count("allocator_allocs", verif::ArenaRegistry::get().allocs);
    verif::count("allocator_frees", verif::ArenaRegistry::get().frees);
    verif::ArenaRegistry::get().allocs = verif::ArenaRegistry::get().frees = 0;
}

static void init() {
    g_prop = verif::param("prop", "C01");
    g_inv = verif::param_int("inv", g_prop == "C02" ? 1 : 0) != 0;
    static std::string pid = g_prop;
    verif::property_id() = pid.c_str();
    verif::Ledger::get().prop = g_prop;
    verif::ArenaRegistry::get().prop = g_prop;
    tlx::set_die_with_exception(true);
}

VERIF_MAIN_INIT(run_case, init)
