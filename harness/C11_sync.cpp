// C11: Semaphore and the two thread barriers under controlled schedules (mode=serial,
// through the dsched shims: every mutex/cv/atomic operation of the unmodified tlx code
// is a scheduling point, deadlock = no runnable thread) and under real threads with
// injected timing jitter (mode=jitter; run under TSan and ASan).
//
// Semaphore: the operations of all threads are ordered by the sequence number of the
// mutex acquisition in which they took effect (recorded by the mutex shim) and replayed
// on the sequential model: wait(d,s) may only complete when value >= d+s and returns
// value-d, try_acquire succeeds exactly when value >= d+s, signal returns the new
// value. In serial mode the main thread is the controller: whenever every other thread
// is blocked or finished (a rest state) it checks that no blocked waiter's request is
// covered by value() -- a stranded waiter -- and otherwise supplies tokens for one.
//
// Barriers: per thread and generation the tickets (enter, leave) and the action's
// ticket/thread are recorded: every enter < action < every leave, exactly one action
// per generation, executed by the last arriver (serial mode: arrival = the thread's
// first mutex acquisition / atomic RMW after entering, from the shim's operation log).
#include <verif.hpp>

#include <tlx/semaphore.hpp>
#include <tlx/thread_barrier_mutex.hpp>
#include <tlx/thread_barrier_spin.hpp>

using verif::Rng;

static bool g_serial = true;
static std::string g_scenario;
static void print_scenario() { fprintf(stderr, "scenario: %s\n", g_scenario.c_str()); }

static void pause_point() {
    if (g_serial) dsched::S().yield_point(); else dsched::S().jitter();
}

/******************************************************************************/
// Semaphore

struct SemOp {
    char kind = 'w';        // 'w' wait, 't' try_acquire, 's' signal(), 'S' signal(n)
    size_t d = 1, s = 0;
    uint64_t seq = 0;       // mutex acquisition in which it took effect
    size_t ret = 0;
    bool started = false, done = false;
};
struct SemThread {
    std::vector<SemOp> ops;
    size_t cur = 0;
    bool finished = false;
};

static std::string op_str(const SemOp& o) {
    switch (o.kind) {
    case 'w': return "wait(" + std::to_string(o.d) + "," + std::to_string(o.s) + ")";
    case 't': return "try_acquire(" + std::to_string(o.d) + "," + std::to_string(o.s) + ")";
    case 's': return "signal()";
    default: return "signal(" + std::to_string(o.d) + ")";
    }
}

static void do_op(tlx::Semaphore& sem, SemOp& o) {
    o.started = true;
    switch (o.kind) {
    case 'w': o.ret = sem.wait(o.d, o.s); break;
    case 't': o.ret = sem.try_acquire(o.d, o.s) ? 1 : 0; break;
    case 's': o.ret = sem.signal(); break;
    default: o.ret = sem.signal(o.d); break;
    }
    o.seq = dsched::last_lock_seq();
    o.done = true;
}

static void sem_case(Rng& rng) {
    size_t v0 = rng.below(3);
    unsigned nw = 1 + (unsigned)rng.below(3), ng = (unsigned)rng.below(3);
    int dmode = (int)rng.below(3);   // 0 equal deltas, 1 mixed 1..3, 2 mixed with slack
    std::vector<SemThread> th(nw + ng + 1);   // last = main (controller)
    size_t demand = 0, max_slack = 0, supply = v0;
    for (unsigned t = 0; t < nw; ++t) {
        size_t n = 1 + rng.below(3);
        for (size_t i = 0; i < n; ++i) {
            SemOp o;
            o.kind = rng.chance(1, 5) ? 't' : 'w';
            o.d = dmode == 0 ? 1 : 1 + rng.below(3);
            o.s = dmode == 2 ? rng.below(3) : 0;
            if (rng.chance(1, 12)) o.d = 0;
            demand += o.d; if (o.kind == 'w') max_slack = std::max(max_slack, o.s);
            th[t].ops.push_back(o);
        }
    }
    for (unsigned t = nw; t < nw + ng; ++t) {
        size_t n = 1 + rng.below(3);
        for (size_t i = 0; i < n; ++i) {
            SemOp o;
            if (rng.chance(1, 6)) { o.kind = 't'; o.d = 1 + rng.below(2); o.s = dmode == 2 ? rng.below(2) : 0; demand += o.d; }
            else if (rng.coin()) { o.kind = 's'; o.d = 1; supply += 1; }
            else { o.kind = 'S'; o.d = rng.below(4); supply += o.d; }
            th[t].ops.push_back(o);
        }
    }
    bool covered = !g_serial || rng.chance(1, 3);
    SemThread& mainth = th[nw + ng];
    if (covered && supply < demand + max_slack) {
        // the controller supplies the rest concurrently, as single signals or one batch
        size_t k = demand + max_slack - supply + rng.below(2);
        if (rng.coin()) { SemOp o; o.kind = 'S'; o.d = k; mainth.ops.push_back(o); }
        else for (size_t i = 0; i < k; ++i) { SemOp o; o.kind = 's'; o.d = 1; mainth.ops.push_back(o); }
    }
    g_scenario = "Semaphore(" + std::to_string(v0) + ")";
    for (size_t t = 0; t < th.size(); ++t) {
        g_scenario += t + 1 == th.size() ? " | main:" : " | T" + std::to_string(t) + ":";
        for (auto& o : th[t].ops) g_scenario += " " + op_str(o);
    }
    g_scenario += covered ? " [supply covers demand]" : " [under-supplied; controller tops up at rest states]";

    tlx::Semaphore sem(v0);
    dsched::S().context = "Semaphore";
    dsched::S().spurious_den = rng.chance(1, 3) ? 6 : 0;   // a third of the scenarios with spurious wake-ups
    dsched::S().begin(rng.next(), (int)rng.below(dsched::STRATEGIES));
    std::vector<dsched::thread> threads;
    for (unsigned t = 0; t < nw + ng; ++t)
        threads.emplace_back([&sem, &th, t]() {
            for (th[t].cur = 0; th[t].cur < th[t].ops.size(); ++th[t].cur) { pause_point(); do_op(sem, th[t].ops[th[t].cur]); }
            th[t].finished = true;
        });
    for (auto& o : mainth.ops) { pause_point(); do_op(sem, o); }
    uint64_t rests = 0;
    bool stranded = false;
    if (g_serial) {
        dsched::Sched& S = dsched::S();
        for (;;) {
            S.yield_point(true);
            if (S.others_finished()) break;
            if (!S.others_at_rest()) continue;
            // rest state: every unfinished thread is blocked (inside Semaphore::wait)
            ++rests;
            size_t value = sem.value();
            size_t best = (size_t)-1;
            for (unsigned t = 0; t < nw + ng; ++t) {
                if (th[t].finished) continue;
                const SemOp& o = th[t].ops[th[t].cur];
                if (o.kind != 'w' || !o.started || o.done) { verif::fail("C11:harness:rest-state", "thread at rest outside wait(): " + g_scenario); stranded = true; break; }
                if (value >= o.d + o.s) {
                    verif::fail("C11:Semaphore:stranded-waiter", "all threads at rest, value() = " + std::to_string(value) + " but T" + std::to_string(t) + " is still blocked in " + op_str(o) + " | " + g_scenario);
                    stranded = true;
                    break;
                }
                best = std::min(best, o.d + o.s - value);
            }
            if (stranded) {
                // release everybody so the run can be wound down
                SemOp o; o.kind = 'S'; o.d = 1000000; mainth.ops.push_back(o); do_op(sem, mainth.ops.back());
                // a large batch wakes all; loop until the others are done
                while (!S.others_finished()) {
                    S.yield_point(true);
                    if (S.others_at_rest() && !S.others_finished()) { SemOp o2; o2.kind = 'S'; o2.d = 1000000; mainth.ops.push_back(o2); do_op(sem, mainth.ops.back()); }
                }
                break;
            }
            verif::count("sem_rest_states_with_uncovered_waiters");
            // supply what the least demanding waiter needs
            if (rng.coin()) { SemOp o; o.kind = 'S'; o.d = best; mainth.ops.push_back(o); do_op(sem, mainth.ops.back()); }
            else for (size_t i = 0; i < best; ++i) { SemOp o; o.kind = 's'; o.d = 1; mainth.ops.push_back(o); do_op(sem, mainth.ops.back()); }
        }
    }
    for (auto& t : threads) t.join();
    dsched::Stats st = dsched::S().end();
    verif::count("sem_histories");
    verif::count("spurious_wakeups_injected", dsched::S().spurious_wakeups);
    verif::count("sem_rest_states_inspected", rests);
    verif::count("sem_waits_that_blocked", st.cv_blocks);
    if (g_serial) { verif::distinct(st.hash); verif::count("schedule_steps", st.steps); }
    if (stranded) return;

    // replay on the sequential model in the order of the deciding mutex acquisitions
    std::vector<const SemOp*> all;
    for (auto& t : th) for (auto& o : t.ops) if (o.done) all.push_back(&o);
    std::sort(all.begin(), all.end(), [](const SemOp* a, const SemOp* b) { return a->seq < b->seq; });
    size_t v = v0, acquired = 0, signalled = v0;
    for (const SemOp* o : all) {
        bool ok = true; std::string why;
        switch (o->kind) {
        case 'w':
            if (v < o->d + o->s) { ok = false; why = "completed although the value was " + std::to_string(v); break; }
            v -= o->d; acquired += o->d;
            if (o->ret != v) { ok = false; why = "returned " + std::to_string(o->ret) + ", model value " + std::to_string(v); }
            break;
        case 't': {
            bool can = v >= o->d + o->s;
            if ((o->ret != 0) != can) { ok = false; why = std::string("returned ") + (o->ret ? "true" : "false") + " at model value " + std::to_string(v); break; }
            if (can) { v -= o->d; acquired += o->d; }
            break;
        }
        default:
            v += o->d; signalled += o->d;
            if (o->ret != v) { ok = false; why = "returned " + std::to_string(o->ret) + ", model value " + std::to_string(v); }
        }
        if (ok && acquired > signalled) { ok = false; why = "more tokens handed out than signalled"; }
        if (!ok) {
            verif::fail(std::string("C11:Semaphore:model:") + (o->kind == 'w' ? "wait" : o->kind == 't' ? "try_acquire" : "signal"), op_str(*o) + " " + why + " | " + g_scenario);
            return;
        }
    }
    if (sem.value() != v) verif::fail("C11:Semaphore:model:final-value", "value() = " + std::to_string(sem.value()) + ", model " + std::to_string(v) + " | " + g_scenario);
    verif::count("sem_ops_replayed", all.size());
    verif::cover(std::string("sem:") + (dmode == 0 ? "equal-deltas" : dmode == 1 ? "mixed-deltas" : "mixed-deltas+slack") + ":waiters=" + std::to_string(nw) + ":signalers=" + std::to_string(ng) + (covered ? ":covered" : ":under-supplied"));
}

/******************************************************************************/
// barriers

struct GenRec { uint64_t enter = 0, leave = 0; };

template <typename Barrier, bool UseYield>
static void barrier_case(Rng& rng, const char* bname) {
    unsigned n = 1 + (unsigned)rng.below(4);
    unsigned gens = 3 + (unsigned)rng.below(5);
    if (!g_serial && rng.chance(1, 4)) n = 5 + (unsigned)rng.below(12);
    std::vector<std::vector<GenRec> > rec(n, std::vector<GenRec>(gens));
    struct Act { uint64_t tick = 0; int thread = -1; unsigned count = 0; };
    std::vector<Act> acts(gens);
    std::vector<unsigned> work(n * gens);
    for (auto& w : work) w = (unsigned)rng.below(4);
    g_scenario = std::string(bname) + (UseYield ? "::wait_yield" : "::wait") + " n=" + std::to_string(n) + " generations=" + std::to_string(gens);
    std::string key = std::string("C11:") + bname;

    Barrier barrier(n);
    dsched::Sched& S = dsched::S();
    S.context = bname;
    S.log_ops = g_serial;
    S.spurious_den = rng.chance(1, 3) ? 6 : 0;
    S.begin(rng.next(), (int)rng.below(dsched::STRATEGIES));
    // one counter of completed actions; written only inside the action (one thread at a time
    // if the barrier is correct; TSan reports it otherwise)
    unsigned actions_done = 0;
    std::vector<dsched::thread> threads;
    for (unsigned t = 0; t < n; ++t)
        threads.emplace_back([&, t]() {
            for (unsigned g = 0; g < gens; ++g) {
                for (unsigned w = 0; w < work[t * gens + g]; ++w) pause_point();
                rec[t][g].enter = dsched::tick();
                auto action = [&acts, &actions_done, g, t]() {
                    Act& a = acts[g < acts.size() ? g : 0];
                    a.tick = dsched::tick(); a.thread = (int)t; ++a.count; ++actions_done;
                };
                if (UseYield) barrier.wait_yield(action); else barrier.wait(action);
                rec[t][g].leave = dsched::tick();
            }
        });
    for (auto& t : threads) t.join();
    dsched::Stats st = S.end();
    S.log_ops = false;
    verif::count("barrier_histories");
    verif::count("spurious_wakeups_injected", S.spurious_wakeups);
    verif::count("barrier_generations", gens);
    if (g_serial) { verif::distinct(st.hash); verif::count("schedule_steps", st.steps); }

    for (unsigned g = 0; g < gens; ++g) {
        uint64_t max_enter = 0, min_leave = ~0ull;
        for (unsigned t = 0; t < n; ++t) { max_enter = std::max(max_enter, rec[t][g].enter); min_leave = std::min(min_leave, rec[t][g].leave); }
        if (min_leave < max_enter) { verif::fail(key + ":left-before-all-entered", "generation " + std::to_string(g) + ": a thread left at ticket " + std::to_string(min_leave) + " before the last one entered at " + std::to_string(max_enter) + " | " + g_scenario); return; }
        if (acts[g].count != 1) { verif::fail(key + ":action-count", "generation " + std::to_string(g) + ": the action ran " + std::to_string(acts[g].count) + " time(s) | " + g_scenario); return; }
        if (acts[g].tick < max_enter) { verif::fail(key + ":action-before-all-entered", "generation " + std::to_string(g) + " | " + g_scenario); return; }
        if (acts[g].tick > min_leave) { verif::fail(key + ":action-after-release", "generation " + std::to_string(g) + ": action at ticket " + std::to_string(acts[g].tick) + ", a thread had left at " + std::to_string(min_leave) + " | " + g_scenario); return; }
        if (g_serial) {
            // last arriver: the thread whose first mutex acquisition / atomic RMW after entering comes last
            uint64_t last_arrival = 0; int last_thread = -1;
            for (unsigned t = 0; t < n; ++t) {
                uint64_t arr = 0;
                for (const dsched::OpRec& o : S.oplog)
                    if (o.tid == (int)t + 1 && o.ticket > rec[t][g].enter) { arr = o.ticket; break; }
                if (arr > last_arrival) { last_arrival = arr; last_thread = (int)t; }
            }
            if (last_thread != acts[g].thread) { verif::fail(key + ":action-not-by-last-arriver", "generation " + std::to_string(g) + ": action run by thread " + std::to_string(acts[g].thread) + ", last arriver was " + std::to_string(last_thread) + " | " + g_scenario); return; }
        }
    }
    if (actions_done != gens) verif::fail(key + ":action-count", "total actions " + std::to_string(actions_done) + " for " + std::to_string(gens) + " generations | " + g_scenario);
    verif::cover(std::string("barrier:") + bname + (UseYield ? ":wait_yield" : ":wait") + ":n=" + std::to_string(n > 4 ? 5 : n));
}

/******************************************************************************/

static void run_case(Rng& rng, uint64_t) {
    for (int r = 0; r < 50; ++r) {
        switch (rng.below(7)) {
        case 0: case 1: case 2: sem_case(rng); break;
        case 3: barrier_case<tlx::ThreadBarrierMutex, false>(rng, "ThreadBarrierMutex"); break;
        case 4: barrier_case<tlx::ThreadBarrierMutex, true>(rng, "ThreadBarrierMutex"); break;
        case 5: barrier_case<tlx::ThreadBarrierSpin, false>(rng, "ThreadBarrierSpin"); break;
        default: barrier_case<tlx::ThreadBarrierSpin, true>(rng, "ThreadBarrierSpin"); break;
        }
        if (verif::case_failed()) break;
    }
}

static void init() {
    verif::property_id() = "C11";
    g_serial = verif::param("mode", "serial") == "serial";
    dsched::S().mode = g_serial ? dsched::SERIAL : dsched::JITTER;
    dsched::S().prop = "C11";
    dsched::S().on_deadlock = print_scenario;
}
VERIF_MAIN_INIT(run_case, init)
