// C05: sequential multiway merge entry points vs the stable reference merge.
// Every (shape, element type, algorithm, stable?, sentinels?) is one evaluation.
#include <merge_common.hpp>

#include <tlx/algorithm/multiway_merge.hpp>

using namespace mergechk;

static const char* MWMA[4] = { "LOSER_TREE", "COMBINED", "SENTINEL", "BUBBLE" };
static uint64_t g_merges = 0;

template <typename E, typename Cmp>
static void one(const Shape& sh, Cmp cmp, int algo, bool stable, bool sentinels) {
    Inputs<E> in;
    in.build(sh, sentinels);
    std::vector<E> out(sh.length + 3);
    for (auto& e : out) e.set(-999, CANARY_SEQ, 0);
    tlx::MultiwayMergeAlgorithm mwma = (tlx::MultiwayMergeAlgorithm)algo;
    E* ret;
    typedef long D;
    if (stable && sentinels)
        ret = tlx::stable_multiway_merge_sentinels(in.seqs.begin(), in.seqs.end(), out.data(), (D)sh.length, cmp, mwma);
    else if (stable)
        ret = tlx::stable_multiway_merge(in.seqs.begin(), in.seqs.end(), out.data(), (D)sh.length, cmp, mwma);
    else if (sentinels)
        ret = tlx::multiway_merge_sentinels(in.seqs.begin(), in.seqs.end(), out.data(), (D)sh.length, cmp, mwma);
    else
        ret = tlx::multiway_merge(in.seqs.begin(), in.seqs.end(), out.data(), (D)sh.length, cmp, mwma);
    ++g_merges;
    std::string detail;
    std::string why = check_result(sh, in, out, (size_t)(ret - out.data()), stable, detail);
    std::string variant = std::string(stable ? "stable_" : "") + "multiway_merge" + (sentinels ? "_sentinels" : "") +
                          ":" + MWMA[algo] + ":" + E::name();
    if (!why.empty())
        verif::fail("C05:" + variant + ":" + why, variant + " " + detail + "; " + sh.str());
    std::string kc = sh.k <= 5 ? std::to_string(sh.k) : sh.k <= 9 ? "6-9" : "16+";
    verif::cover(variant + ":k=" + kc + ":" + sh.len_class + (sh.n_empty ? ":empty-seqs" : "") +
                 (sh.universe <= 4 ? ":heavy-ties" : ""));
}

template <typename E>
static void all(const Shape& sh) {
    for (int algo = 0; algo < 4; ++algo)
        for (int stable = 0; stable < 2; ++stable)
            for (int sent = 0; sent < 2; ++sent) {
                if (sh.descending) one<E>(sh, KeyGreater<E>(), algo, stable, sent);
                else one<E>(sh, KeyLess<E>(), algo, stable, sent);
            }
}

static void run_case(Rng& rng, uint64_t) {
    uint64_t m0 = g_merges;
    for (int r = 0; r < 40; ++r) {
        Shape sh = make_shape(rng);
        if (verif::want_sample(3)) verif::sample(sh.str());
        all<Elem8>(sh);
        all<Elem32>(sh);
        if (r % 4 == 0) all<ElemStr>(sh);
        if (r % 4 == 2) {
            all<ElemT16>(sh);
            // every element object the merges made (also inside the loser trees) is gone again
            if (verif::Ledger::get().live_count() != 0 && !verif::case_failed())
                verif::fail("C05:lifetime:elements-alive-after-merge", std::to_string(verif::Ledger::get().live_count()) + " element objects alive after the merges of " + sh.str());
            verif::Ledger::get().live.clear(); verif::Ledger::get().errors = 0;
            verif::count("shapes_with_ledger_elements");
        }
        verif::count("shapes");
        if (sh.n_empty) verif::count("shapes_with_empty_sequences");
        if (sh.length < sh.total) verif::count("shapes_with_partial_length");
    }
    verif::count("merges_checked", g_merges - m0);
}

static void init() { verif::property_id() = "C05"; verif::Ledger::get().prop = "C05"; }
VERIF_MAIN_INIT(run_case, init)
