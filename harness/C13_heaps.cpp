// C13: DAryHeap, DAryAddressableIntHeap and RadixHeap vs sorted-multiset models,
// stepped in lock-step: after EVERY operation size/empty/top (a minimum under the
// heap's order, and a member), membership of every key of the universe (addressable
// heap), sanity_check(); extracted elements are removed from the model by identity.
// tlx's own asserts are enabled (no NDEBUG) and act as additional monitors.
#include <verif.hpp>

#include <deque>
#include <iterator>
#include <memory>
#include <tracked.hpp>

#include <limits>
#include <map>
#include <set>
#include <type_traits>

#include <tlx/container/d_ary_addressable_int_heap.hpp>
#include <tlx/container/d_ary_heap.hpp>
#include <tlx/container/radix_heap.hpp>

using verif::Rng;

//! a genuine single-pass input range (like std::istream_iterator): copies share the source, and what one
//! copy has consumed is gone for all of them; the parameter is called InputIterator, after all
template <typename K>
struct SinglePassIt {
    typedef std::input_iterator_tag iterator_category;
    typedef K value_type;
    typedef std::ptrdiff_t difference_type;
    typedef const K* pointer;
    typedef const K& reference;
    std::shared_ptr<std::deque<K> > src;   // empty or null = end of the range
    SinglePassIt() {}
    explicit SinglePassIt(const std::vector<K>& v) : src(v.empty() ? nullptr : new std::deque<K>(v.begin(), v.end())) {}
    bool at_end() const { return !src || src->empty(); }
    reference operator*() const { return src->front(); }
    pointer operator->() const { return &src->front(); }
    SinglePassIt& operator++() { src->pop_front(); return *this; }
    struct Proxy { K v; const K& operator*() const { return v; } };
    Proxy operator++(int) { Proxy p{ src->front() }; src->pop_front(); return p; }
    friend bool operator==(const SinglePassIt& a, const SinglePassIt& b) { return a.at_end() == b.at_end(); }
    friend bool operator!=(const SinglePassIt& a, const SinglePassIt& b) { return !(a == b); }
};
using verif::Tracked;

static uint64_t g_ops = 0;
struct Stop {};

static std::string tail(const std::vector<std::string>& trace, size_t n = 40) {
    std::string tr;
    size_t from = trace.size() > n ? trace.size() - n : 0;
    for (size_t i = from; i < trace.size(); ++i) tr += trace[i] + "; ";
    return tr;
}

/******************************************************************************/
// DAryHeap element variants

struct Item { int prio; int id; };
VERIF_MISLEADING_ORDER(Item, prio)
VERIF_MISLEADING_EQUALITY(Item, prio)

struct VarIntLess {
    typedef int key_type; typedef std::less<int> compare;
    static const char* name() { return "int-less"; }
    static const bool has_id = false, tracked = false;
    static compare make_cmp() { return compare(); }
    static int make(int prio, int) { return prio; }
    static int prio(const int& e) { return e; }
    static int id(const int&) { return -1; }
    static bool before(int a, int b) { return a < b; }
    static bool intact(const int&) { return true; }
};
struct VarIntGreater : VarIntLess {
    typedef std::greater<int> compare;
    static const char* name() { return "int-greater"; }
    static compare make_cmp() { return compare(); }
    static bool before(int a, int b) { return a > b; }
};
struct ItemCmp { bool operator()(const Item& a, const Item& b) const { return a.prio < b.prio; } };
struct VarItem {
    typedef Item key_type; typedef ItemCmp compare;
    static const char* name() { return "item-by-prio"; }
    static const bool has_id = true, tracked = false;
    static compare make_cmp() { return compare(); }
    static Item make(int prio, int id) { return Item{ prio, id }; }
    static int prio(const Item& e) { return e.prio; }
    static int id(const Item& e) { return e.id; }
    static bool intact(const Item&) { return true; }
    static bool before(int a, int b) { return a < b; }
};
struct TrackedCmp { bool operator()(const Tracked& a, const Tracked& b) const { return a.key > b.key; } };
struct VarTracked {
    typedef Tracked key_type; typedef TrackedCmp compare;
    static const char* name() { return "tracked-desc"; }
    static const bool has_id = true, tracked = true;
    static compare make_cmp() { return compare(); }
    static Tracked make(int prio, int id) { return Tracked(prio, id); }
    static int prio(const Tracked& e) { return e.key; }
    static int id(const Tracked& e) { return e.payload; }
    static bool intact(const Tracked& e) { return e.heap && *e.heap == e.key; }
    static bool before(int a, int b) { return a > b; }
};

template <unsigned A, typename V>
struct DAryDriver {
    typedef typename V::key_type K;
    typedef tlx::DAryHeap<K, A, typename V::compare> H;
    Rng& rng;
    std::unique_ptr<H> h;
    std::vector<std::pair<int, int> > model;   // (prio, id)
    std::vector<std::string> trace;
    int next_id = 1, universe;
    explicit DAryDriver(Rng& r) : rng(r) { universe = (int)rng.pick(std::vector<int>{ 2, 5, 30, 100000 }); }

    void bad(const std::string& what, const std::string& detail) {
        verif::fail("C13:DAryHeap:" + what, std::string("DAryHeap<") + V::name() + ",A=" + std::to_string(A) + "> " + what + ": " + detail + " | ops: " + tail(trace));
        throw Stop();
    }
    int best() const {
        int b = model[0].first;
        for (auto& m : model) if (V::before(m.first, b)) b = m.first;
        return b;
    }
    size_t find(int prio, int id) const {
        for (size_t i = 0; i < model.size(); ++i)
            if (model[i].first == prio && (!V::has_id || model[i].second == id)) return i;
        return model.size();
    }
    void check(const char* after) {
        const H& ch = *h;
        if (ch.size() != model.size()) bad("size", std::string(after) + ": tlx " + std::to_string(ch.size()) + " model " + std::to_string(model.size()));
        if (ch.empty() != model.empty()) bad("empty", after);
        if (!model.empty()) {
            const K& t = ch.top();
            if (V::prio(t) != best()) bad("top-not-minimal", std::string(after) + ": top priority " + std::to_string(V::prio(t)) + ", best stored " + std::to_string(best()));
            if (find(V::prio(t), V::id(t)) == model.size()) bad("top-not-a-member", after);
            if (!V::intact(t)) bad("top-is-a-moved-from-object", after);
        }
        if (!h->sanity_check()) bad("sanity_check", after);
        if (V::tracked) {
            size_t live = verif::Ledger::get().live_count();
            if (live != model.size()) bad("lifetime:live-elements", std::string(after) + ": " + std::to_string(live) + " alive, " + std::to_string(model.size()) + " stored");
            if (verif::Ledger::get().errors) throw Stop();
        }
    }
    int new_prio() { return (int)rng.below(universe) - universe / 2; }
    void take_top(bool extract) {
        if (extract) {
            K e = h->extract_top();
            if (V::prio(e) != best()) bad("extract_top-not-minimal", "returned priority " + std::to_string(V::prio(e)) + ", best stored " + std::to_string(best()));
            size_t i = find(V::prio(e), V::id(e));
            if (i == model.size()) bad("extract_top-not-a-member", "");
            model.erase(model.begin() + i);
        }
        else {
            K e = h->top();
            size_t i = find(V::prio(e), V::id(e));
            if (i == model.size()) bad("top-not-a-member", "before pop");
            h->pop();
            model.erase(model.begin() + i);
        }
    }
    std::vector<K> fresh_list() {
        size_t n = rng.pick(std::vector<size_t>{ 0, 1, 2, A, A + 1, A + 2, A * A + 1, 17, 40 });
        std::vector<K> v;
        model.clear();
        for (size_t i = 0; i < n; ++i) { int p = new_prio(), id = next_id++; v.push_back(V::make(p, id)); model.push_back({ p, id }); }
        return v;
    }
    void op() {
        ++g_ops;
        unsigned r = (unsigned)rng.below(100);
        if (r < 4 && !model.empty()) {
            // the argument refers into the heap itself: push(heap.top())
            int p = V::prio(h->top()), id = V::id(h->top());
            trace.push_back("push(top())");
            h->push(h->top());
            model.push_back({ p, id });
            check("push(top())");
            verif::count("dary_push_argument_inside_heap");
        }
        else if (r < 45) {
            int p = new_prio(), id = next_id++;
            if (rng.coin()) { K e = V::make(p, id); h->push(e); trace.push_back("push(" + std::to_string(p) + ")"); }
            else { h->push(V::make(p, id)); trace.push_back("push(&&" + std::to_string(p) + ")"); }
            model.push_back({ p, id });
            check("push");
        }
        else if (r < 75) {
            if (model.empty()) return;
            bool ex = rng.coin();
            trace.push_back(ex ? "extract_top" : "pop");
            take_top(ex);
            check("pop");
            verif::count("dary_pops");
        }
        else if (r < 84) {
            unsigned w = (unsigned)rng.below(3);
            if (w == 0 && rng.coin()) { std::vector<K> v = fresh_list(); trace.push_back("build_heap(single-pass input iterators," + std::to_string(v.size()) + ")"); h->build_heap(SinglePassIt<K>(v), SinglePassIt<K>()); }
            else if (w == 0) { std::vector<K> v = fresh_list(); trace.push_back("build_heap(it," + std::to_string(v.size()) + ")"); h->build_heap(v.begin(), v.end()); }
            else if (w == 1) { std::vector<K> v = fresh_list(); trace.push_back("build_heap(const&," + std::to_string(v.size()) + ")"); h->build_heap(v); }
            else { std::vector<K> v = fresh_list(); trace.push_back("build_heap(&&," + std::to_string(v.size()) + ")"); h->build_heap(std::move(v)); }
            check("build_heap");
            verif::count("dary_build_heap");
        }
        else if (r < 87) { h->clear(); model.clear(); trace.push_back("clear"); check("clear"); }
        else if (r < 90) { h->update_all(); trace.push_back("update_all"); check("update_all"); }
        else if (r < 93) { h->reserve(rng.below(100)); trace.push_back("reserve"); check("reserve"); }
        else if (r < 97) {
            trace.push_back("copy round trip");
            std::unique_ptr<H> c(new H(*h));
            h.reset();
            h.reset(new H(V::make_cmp()));
            *h = *c;
            c.reset();
            check("copy");
        }
        else {
            trace.push_back("move round trip");
            std::unique_ptr<H> c(new H(std::move(*h)));
            h.reset(new H(V::make_cmp()));
            *h = std::move(*c);
            c.reset();
            check("move");
        }
    }
    void run() {
        verif::live_trace() = &trace;
        try {
            h.reset(new H(V::make_cmp()));
            check("construct");
            size_t nops = rng.pick(std::vector<size_t>{ 30, 120, 400 });
            for (size_t i = 0; i < nops; ++i) op();
            // drain: non-decreasing in heap order, multiset-equal
            bool have = false; int last = 0;
            while (!model.empty()) {
                int p = V::prio(h->top());
                if (have && V::before(p, last)) bad("drain-order", "drained " + std::to_string(p) + " after " + std::to_string(last));
                have = true; last = p;
                take_top(rng.coin());
                check("drain");
            }
            h.reset();
            if (V::tracked && verif::Ledger::get().live_count()) bad("lifetime:leak", "elements alive after destruction");
        }
        catch (Stop&) { h.reset(); }
        verif::Ledger::get().live.clear(); verif::Ledger::get().errors = 0;
        verif::cover(std::string("dary:") + V::name() + ":A=" + std::to_string(A));
        verif::count("dary_histories");
        verif::live_trace() = nullptr;
    }
};

/******************************************************************************/
// addressable heap: keys are ids, priorities live in an external table

struct TableCmp {
    const std::vector<int>* t; bool desc;
    template <typename K>
    bool operator()(const K& a, const K& b) const { return desc ? (*t)[a] > (*t)[b] : (*t)[a] < (*t)[b]; }
};

template <typename KT, unsigned A>
struct AddrDriver {
    typedef tlx::DAryAddressableIntHeap<KT, A, TableCmp> H;
    Rng& rng;
    std::vector<int> table;
    std::set<KT> present;
    std::unique_ptr<H> h;
    std::vector<std::string> trace;
    size_t N; bool desc; int universe;
    explicit AddrDriver(Rng& r) : rng(r) {
        N = rng.pick(std::vector<size_t>{ 3, 6, 12, 40 });
        desc = rng.coin();
        universe = (int)rng.pick(std::vector<int>{ 2, 6, 1000 });
        table.assign(N + 8, 0);
        for (auto& x : table) x = (int)rng.below(universe);
    }
    void bad(const std::string& what, const std::string& detail) {
        verif::fail("C13:DAryAddressableIntHeap:" + what, std::string("DAryAddressableIntHeap<u") + std::to_string(8 * sizeof(KT)) + ",A=" + std::to_string(A) + (desc ? ",desc" : ",asc") + "> " + what + ": " + detail + " | ops: " + tail(trace));
        throw Stop();
    }
    bool before(int a, int b) const { return desc ? a > b : a < b; }
    int best() const {
        bool have = false; int b = 0;
        for (KT k : present) if (!have || before(table[k], b)) { b = table[k]; have = true; }
        return b;
    }
    void check(const char* after) {
        const H& ch = *h;
        if (ch.size() != present.size()) bad("size", std::string(after) + ": tlx " + std::to_string(ch.size()) + " model " + std::to_string(present.size()));
        if (ch.empty() != present.empty()) bad("empty", after);
        if (!present.empty()) {
            KT t = ch.top();
            if (!present.count(t)) bad("top-not-a-member", std::string(after) + ": top key " + std::to_string(t));
            if (table[t] != best()) bad("top-not-minimal", std::string(after) + ": top priority " + std::to_string(table[t]) + ", best stored " + std::to_string(best()));
        }
        for (size_t k = 0; k < N + 8; ++k)
            if (ch.contains((KT)k) != (present.count((KT)k) != 0))
                bad("contains", std::string(after) + ": contains(" + std::to_string(k) + ") = " + (ch.contains((KT)k) ? "true" : "false") + ", model " + (present.count((KT)k) ? "true" : "false"));
        if (ch.contains((KT)(N + 1000)) || ch.contains(std::numeric_limits<KT>::max() - 1)) bad("contains", "key beyond the handle table reported present");
        if (!h->sanity_check()) bad("sanity_check", after);
    }
    KT any_present() { auto it = present.begin(); std::advance(it, rng.below(present.size())); return *it; }
    bool pick_absent(KT& k) {
        for (int t = 0; t < 20; ++t) { k = (KT)rng.below(N); if (!present.count(k)) return true; }
        return false;
    }
    std::vector<KT> subset() {
        std::vector<KT> v;
        unsigned den = (unsigned)rng.pick(std::vector<unsigned>{ 1, 2, 4, 1000 });
        for (size_t k = 0; k < N; ++k) if (rng.chance(1, den)) v.push_back((KT)k);
        std::shuffle(v.begin(), v.end(), rng);
        present.clear(); present.insert(v.begin(), v.end());
        return v;
    }
    void op() {
        ++g_ops;
        unsigned r = (unsigned)rng.below(100);
        if (rng.chance(1, 25)) {
            // reserve() in the middle of a history, also with fewer keys than are stored / than the largest stored key
            size_t n = rng.coin() ? rng.below(N + 4) : rng.below(8);
            trace.push_back("reserve(" + std::to_string(n) + ")");
            h->reserve(n);
            check("reserve");
            verif::count("addr_reserve_mid_history");
            return;
        }
        if (r < 30) {
            KT k;
            if (!pick_absent(k)) return;
            if (rng.coin()) h->push(k); else { KT kk = k; h->push(std::move(kk)); }
            present.insert(k); trace.push_back("push(" + std::to_string(k) + ":" + std::to_string(table[k]) + ")");
            check("push");
        }
        else if (r < 45) {
            if (present.empty()) return;
            KT k = any_present();
            trace.push_back("remove(" + std::to_string(k) + ")");
            h->remove(k); present.erase(k);
            check("remove");
            verif::count("addr_remove");
        }
        else if (r < 58) {
            if (present.empty()) return;
            if (rng.coin()) {
                KT t = h->extract_top(); trace.push_back("extract_top=" + std::to_string(t));
                if (!present.count(t)) bad("extract_top-not-a-member", std::to_string(t));
                if (table[t] != best()) bad("extract_top-not-minimal", "priority " + std::to_string(table[t]) + ", best " + std::to_string(best()));
                present.erase(t);
            }
            else { KT t = h->top(); h->pop(); trace.push_back("pop"); present.erase(t); }
            check("pop");
        }
        else if (r < 76) {   // change one priority, then update(key): sifts either way
            KT k;
            bool was;
            if (!present.empty() && rng.chance(4, 5)) { k = any_present(); was = true; }
            else { if (!pick_absent(k)) return; was = false; }
            int old = table[k];
            table[k] = (int)rng.below(universe) + (rng.chance(1, 4) ? (rng.coin() ? 2000 : -2000) : 0);
            trace.push_back("prio[" + std::to_string(k) + "] " + std::to_string(old) + "->" + std::to_string(table[k]) + "; update(" + std::to_string(k) + (was ? ")" : ", absent)"));
            h->update(k); present.insert(k);
            check("update");
            verif::count(table[k] > old ? "addr_update_increase" : (table[k] < old ? "addr_update_decrease" : "addr_update_same"));
            if (!was) verif::count("addr_update_absent");
        }
        else if (r < 82) {
            for (size_t k = 0; k < table.size(); ++k) if (rng.coin()) table[k] = (int)rng.below(universe);
            trace.push_back("prios changed; update_all");
            h->update_all();
            check("update_all");
        }
        else if (r < 91) {
            bool nonempty = !present.empty();
            std::vector<KT> v = subset();
            unsigned w = (unsigned)rng.below(3);
            trace.push_back(std::string("build_heap[") + (w == 0 ? "it" : w == 1 ? "const&" : "&&") + "](" + verif::join_range(v.begin(), v.end()) + ")" + (nonempty ? " on non-empty heap" : ""));
            if (w == 0 && rng.coin()) { trace.back() += " through single-pass input iterators"; h->build_heap(SinglePassIt<KT>(v), SinglePassIt<KT>()); }
            else if (w == 0) h->build_heap(v.begin(), v.end());
            else if (w == 1) h->build_heap(v);
            else h->build_heap(std::move(v));
            check("build_heap");
            verif::count(nonempty ? "addr_build_heap_nonempty" : "addr_build_heap_empty");
        }
        else if (r < 94) { h->clear(); present.clear(); trace.push_back("clear"); check("clear"); verif::count("addr_clear"); }
        else if (r < 97) {
            trace.push_back("copy round trip");
            std::unique_ptr<H> c(new H(*h));
            h.reset(new H(TableCmp{ &table, desc }));
            *h = *c; c.reset();
            check("copy");
        }
        else {
            trace.push_back("move round trip");
            std::unique_ptr<H> c(new H(std::move(*h)));
            h.reset(new H(TableCmp{ &table, desc }));
            *h = std::move(*c); c.reset();
            check("move");
        }
    }
    void run() {
        verif::live_trace() = &trace;
        try {
            h.reset(new H(TableCmp{ &table, desc }));
            if (rng.coin()) h->reserve(rng.below(N + 4));
            check("construct");
            size_t nops = rng.pick(std::vector<size_t>{ 30, 120, 400 });
            for (size_t i = 0; i < nops; ++i) op();
            bool have = false; int last = 0;
            while (!present.empty()) {
                KT t = h->extract_top();
                if (!present.count(t)) bad("extract_top-not-a-member", "drain");
                if (have && before(table[t], last)) bad("drain-order", "");
                have = true; last = table[t];
                present.erase(t);
                check("drain");
            }
        }
        catch (Stop&) {}
        h.reset();
        verif::cover("addr:u" + std::to_string(8 * sizeof(KT)) + ":A=" + std::to_string(A) + (desc ? ":desc" : ":asc"));
        verif::count("addr_histories");
        verif::live_trace() = nullptr;
    }
};

/******************************************************************************/
// radix heap

template <typename K> static const char* kname();
template <> const char* kname<uint8_t>() { return "u8"; }
template <> const char* kname<int8_t>() { return "i8"; }
template <> const char* kname<uint16_t>() { return "u16"; }
template <> const char* kname<int16_t>() { return "i16"; }
template <> const char* kname<uint32_t>() { return "u32"; }
template <> const char* kname<int32_t>() { return "i32"; }
template <> const char* kname<uint64_t>() { return "u64"; }
template <> const char* kname<int64_t>() { return "i64"; }

template <typename K> static std::string kstr(K k) {
    if (std::is_signed<K>::value) return std::to_string((long long)k);
    return std::to_string((unsigned long long)k);
}

template <typename K, unsigned Radix>
struct RadixDriver {
    typedef tlx::RadixHeapPair<K, uint32_t, Radix> H;
    typedef typename std::make_unsigned<K>::type U;
    Rng& rng;
    std::unique_ptr<H> h;
    std::map<K, std::multiset<uint32_t> > model;   // key -> payloads possibly still stored
    std::map<K, size_t> cnt;                       // key -> number actually stored
    size_t total = 0;
    K limit = std::numeric_limits<K>::min();
    uint32_t next_payload = 1;
    std::vector<std::string> trace;
    int spread;
    explicit RadixDriver(Rng& r) : rng(r) { spread = (int)rng.below(4); }

    void bad(const std::string& what, const std::string& detail) {
        verif::fail("C13:RadixHeap:" + what, std::string("RadixHeapPair<") + kname<K>() + ",Radix=" + std::to_string(Radix) + "> " + what + ": " + detail + " | ops: " + tail(trace));
        throw Stop();
    }
    static U rank(K k) { return (U)((U)k - (U)std::numeric_limits<K>::min()); }
    static K unrank(U r) { return (K)(U)(r + (U)std::numeric_limits<K>::min()); }
    //! a key >= limit
    K gen_key() {
        U lo = rank(limit), span = (U)(std::numeric_limits<U>::max() - lo);
        U off;
        switch (rng.below(10)) {
        case 0: off = 0; break;
        case 1: off = span; break;                               // type maximum
        case 2: off = span ? (U)(span - (U)rng.below(std::min<uint64_t>((uint64_t)span, 3) + 1)) : 0; break;
        case 3: case 4: off = (U)rng.below(std::min<uint64_t>((uint64_t)span, 3) + 1); break;
        case 5: { unsigned b = (unsigned)rng.below(8 * sizeof(K)); U v = (U)((U)1 << b); off = v <= span ? v : span; if (off && rng.coin()) off = (U)(off - 1); break; }
        case 6: off = (U)rng.below(std::min<uint64_t>((uint64_t)span, Radix * Radix + 2) + 1); break;
        default:
            if (spread == 0) off = (U)rng.below(std::min<uint64_t>((uint64_t)span, 40) + 1);
            else if (spread == 1) off = (U)rng.below(std::min<uint64_t>((uint64_t)span, 5000) + 1);
            else { U v = (U)rng.next(); off = span == std::numeric_limits<U>::max() ? v : (U)(v % (U)(span + 1)); }
        }
        return unrank((U)(lo + off));
    }
    void check(const char* after) {
        const H& ch = *h;
        if (ch.size() != total) bad("size", std::string(after) + ": tlx " + std::to_string(ch.size()) + " model " + std::to_string(total));
        if (ch.empty() != (total == 0)) bad("empty", after);
        if (total) {
            K mk = cnt.begin()->first;
            K pk = ch.peak_top_key();
            if (pk != mk) bad("peak_top_key", std::string(after) + ": " + kstr(pk) + ", smallest stored key " + kstr(mk));
        }
    }
    void added(K k, uint32_t p) { model[k].insert(p); ++cnt[k]; ++total; }
    void removed_known(K k, uint32_t p) {
        auto it = model.find(k);
        if (it == model.end() || !it->second.count(p)) bad("not-a-member", "element (" + kstr(k) + "," + std::to_string(p) + ") is not stored");
        it->second.erase(it->second.find(p));
        drop(k);
    }
    void drop(K k) {
        if (--cnt[k] == 0) { cnt.erase(k); model.erase(k); }
        --total;
    }
    void note_reorg() {
        if (!total) return;
        K mk = cnt.begin()->first;
        if (h->get_bucket_key(mk) >= Radix) verif::count("radix_reorganisations");
    }
    void op() {
        ++g_ops;
        unsigned r = (unsigned)rng.below(100);
        if (r < 50) {
            K k = gen_key();
            uint32_t p = next_payload++;
            size_t idx, expect = h->get_bucket_key(k);
            switch (rng.below(5)) {
            case 0: idx = h->push(std::make_pair(k, p)); trace.push_back("push(" + kstr(k) + ")"); break;
            case 1: idx = h->emplace(k, k, p); trace.push_back("emplace(" + kstr(k) + ")"); break;
            case 2: idx = h->emplace_keyfirst(k, p); trace.push_back("emplace_keyfirst(" + kstr(k) + ")"); break;
            case 3: idx = expect; h->push_to_bucket(idx, std::make_pair(k, p)); trace.push_back("push_to_bucket(" + kstr(k) + ")"); break;
            default: idx = expect; h->emplace_in_bucket(idx, k, p); trace.push_back("emplace_in_bucket(" + kstr(k) + ")"); break;
            }
            if (idx != expect) bad("bucket-index", "push returned bucket " + std::to_string(idx) + ", get_bucket_key says " + std::to_string(expect));
            added(k, p);
            if (k == std::numeric_limits<K>::max()) verif::count("radix_key_type_max");
            if (k == std::numeric_limits<K>::min()) verif::count("radix_key_type_min");
            if (k == limit) verif::count("radix_push_equal_to_limit");
            check("push");
        }
        else if (r < 62) {
            if (!total) return;
            note_reorg();
            K mk = cnt.begin()->first;
            const std::pair<K, uint32_t>& t = h->top();
            trace.push_back("top=" + kstr(t.first));
            if (t.first != mk) bad("top-not-minimal", "top key " + kstr(t.first) + ", smallest stored key " + kstr(mk));
            if (!model[mk].count(t.second)) bad("top-not-a-member", "payload " + std::to_string(t.second));
            limit = mk;
            if (rng.coin()) {   // pop right after top: we know which element goes
                uint32_t p = t.second;
                h->pop(); trace.push_back("pop");
                removed_known(mk, p);
            }
            check("top");
        }
        else if (r < 82) {
            if (!total) return;
            note_reorg();
            K mk = cnt.begin()->first;
            h->pop(); trace.push_back("pop(" + kstr(mk) + ")");
            limit = mk;
            // one element of key mk is gone; which one is unknown until seen again
            if (cnt[mk] == 1) { cnt.erase(mk); model.erase(mk); --total; }
            else drop(mk);
            check("pop");
            verif::count("radix_pops");
        }
        else if (r < 90) {
            if (!total) return;
            note_reorg();
            K mk = cnt.begin()->first;
            typename H::bucket_data_type b;
            h->swap_top_bucket(b);
            trace.push_back("swap_top_bucket(" + kstr(mk) + ")=" + std::to_string(b.size()));
            limit = mk;
            if (b.size() != cnt[mk]) bad("swap_top_bucket", "bucket holds " + std::to_string(b.size()) + " elements, " + std::to_string(cnt[mk]) + " stored with the smallest key " + kstr(mk));
            std::multiset<uint32_t> left = model[mk];
            for (auto& e : b) {
                if (e.first != mk) bad("swap_top_bucket", "bucket holds key " + kstr(e.first) + ", smallest is " + kstr(mk));
                auto it = left.find(e.second);
                if (it == left.end()) bad("swap_top_bucket", "element not stored / returned twice");
                left.erase(it);
            }
            total -= cnt[mk]; cnt.erase(mk); model.erase(mk);
            check("swap_top_bucket");
            verif::count("radix_swap_top_bucket");
        }
        else if (r < 93) {
            h->clear(); model.clear(); cnt.clear(); total = 0; limit = std::numeric_limits<K>::min();
            trace.push_back("clear");
            check("clear");
            verif::count("radix_clear");
        }
        else if (r < 97) {
            trace.push_back("copy round trip");
            std::unique_ptr<H> c(new H(*h));
            h.reset(new H());
            *h = *c; c.reset();
            check("copy");
        }
        else {
            trace.push_back("move round trip");
            std::unique_ptr<H> c(new H(std::move(*h)));
            h.reset(new H());
            *h = std::move(*c); c.reset();
            check("move");
        }
    }
    void run() {
        verif::live_trace() = &trace;
        try {
            h.reset(new H());
            // starting region
            switch (rng.below(4)) {
            case 0: break;
            case 1: if (std::is_signed<K>::value) limit = (K)-3; break;
            case 2: limit = (K)(std::numeric_limits<K>::max() - (K)rng.below(100)); break;
            default: limit = unrank((U)rng.next()); break;
            }
            if (limit != std::numeric_limits<K>::min()) {
                // establish the limit through the API: push the key and look at the top
                h->push(std::make_pair(limit, 0u)); added(limit, 0u);
                if (h->top().first != limit) bad("top-not-minimal", "single element");
                trace.push_back("start at " + kstr(limit));
            }
            check("construct");
            size_t nops = rng.pick(std::vector<size_t>{ 30, 120, 400 });
            for (size_t i = 0; i < nops; ++i) op();
            // drain
            while (total) {
                K mk = cnt.begin()->first;
                const auto& t = h->top();
                if (t.first != mk) bad("drain-order", "top key " + kstr(t.first) + ", smallest stored key " + kstr(mk));
                if (!model[mk].count(t.second)) bad("top-not-a-member", "drain");
                uint32_t p = t.second;
                h->pop();
                removed_known(mk, p);
                check("drain");
            }
        }
        catch (Stop&) {}
        h.reset();
        verif::cover(std::string("radix:") + kname<K>() + ":R=" + std::to_string(Radix));
        verif::count("radix_histories");
        verif::live_trace() = nullptr;
    }
};

/******************************************************************************/

template <typename V> static void dary_any(Rng& rng) {
    switch (rng.below(8)) {
    case 0: { DAryDriver<1, V> d(rng); d.run(); break; }
    case 1: { DAryDriver<2, V> d(rng); d.run(); break; }
    case 2: { DAryDriver<3, V> d(rng); d.run(); break; }
    case 3: { DAryDriver<4, V> d(rng); d.run(); break; }
    case 4: { DAryDriver<5, V> d(rng); d.run(); break; }
    case 5: { DAryDriver<6, V> d(rng); d.run(); break; }
    case 6: { DAryDriver<7, V> d(rng); d.run(); break; }
    default: { DAryDriver<8, V> d(rng); d.run(); break; }
    }
}
template <typename KT> static void addr_any(Rng& rng) {
    switch (rng.below(8)) {
    case 0: { AddrDriver<KT, 1> d(rng); d.run(); break; }
    case 1: { AddrDriver<KT, 2> d(rng); d.run(); break; }
    case 2: { AddrDriver<KT, 3> d(rng); d.run(); break; }
    case 3: { AddrDriver<KT, 4> d(rng); d.run(); break; }
    case 4: { AddrDriver<KT, 5> d(rng); d.run(); break; }
    case 5: { AddrDriver<KT, 6> d(rng); d.run(); break; }
    case 6: { AddrDriver<KT, 7> d(rng); d.run(); break; }
    default: { AddrDriver<KT, 8> d(rng); d.run(); break; }
    }
}
template <typename K> static void radix_any(Rng& rng) {
    switch (rng.below(5)) {
    case 0: { RadixDriver<K, 2> d(rng); d.run(); break; }
    case 1: { RadixDriver<K, 4> d(rng); d.run(); break; }
    case 2: { RadixDriver<K, 8> d(rng); d.run(); break; }
    case 3: { RadixDriver<K, 16> d(rng); d.run(); break; }
    default: { RadixDriver<K, 64> d(rng); d.run(); break; }
    }
}

// the harness is compiled as several units (VERIF_PART) so the template matrix builds in parallel
#ifndef VERIF_PART
#define VERIF_PART 0
#endif
static void run_case(Rng& rng, uint64_t) {
    uint64_t o0 = g_ops;
    for (int r = 0; r < 12; ++r) {
#if VERIF_PART == 0
        switch (rng.below(4)) {
        case 0: dary_any<VarIntLess>(rng); break;
        case 1: dary_any<VarIntGreater>(rng); break;
        case 2: dary_any<VarItem>(rng); break;
        default: dary_any<VarTracked>(rng); break;
        }
#elif VERIF_PART == 1
        if (rng.chance(1, 6)) addr_any<uint64_t>(rng); else addr_any<uint32_t>(rng);
        addr_any<uint32_t>(rng);
#elif VERIF_PART == 2
        for (int q = 0; q < 2; ++q)
            switch (rng.below(4)) {
            case 0: radix_any<uint8_t>(rng); break;
            case 1: radix_any<int8_t>(rng); break;
            case 2: radix_any<uint16_t>(rng); break;
            default: radix_any<int16_t>(rng); break;
            }
#else
        for (int q = 0; q < 2; ++q)
            switch (rng.below(4)) {
            case 0: radix_any<uint32_t>(rng); break;
            case 1: radix_any<int32_t>(rng); break;
            case 2: radix_any<uint64_t>(rng); break;
            default: radix_any<int64_t>(rng); break;
            }
#endif
    }
    verif::count("operations", g_ops - o0);
}

static void init() {
    verif::property_id() = "C13";
    verif::Ledger::get().prop = "C13";
    verif::death_extra() = verif::print_live_trace;
}
VERIF_MAIN_INIT(run_case, init)
