// C15: sorting networks (best, bose_nelson, bose_nelson_parameter), n = 0..16.
//
// mode=zo    case index = n: all 2^n zero-one inputs through the size-specific
//            network and the dispatching sort(), with less and greater; elements
//            carry a unique id so that "permutation" is checked by identity
// mode=obl   case index = n: the recorded compare-exchange index sequence of the
//            size-specific networks is the same for every input (obliviousness,
//            the premise of the zero-one principle) and uses valid index pairs i<j
// mode=rand  random inputs with duplicates: int / std::string / struct, several
//            strict weak orders, all three families, both entry points
#include <verif.hpp>

#include <array>
#include <deque>
#include <functional>
#include <iterator>
#include <string>

#include <tlx/sort/networks/best.hpp>
#include <tlx/sort/networks/bose_nelson.hpp>
#include <tlx/sort/networks/bose_nelson_parameter.hpp>

using verif::Rng;
namespace sn = tlx::sort_networks;

enum Family { BEST = 0, BN = 1, BNP = 2 };
static const char* FAM[3] = { "best", "bose_nelson", "bose_nelson_parameter" };

/******************************************************************************/
// direct calls of the size-specific networks

template <typename T, typename CSwap>
static void direct(int fam, T* a, size_t n, CSwap cs) {
    if (fam == BEST) {
        switch (n) {
        case 2: sn::best::sort2(a, cs); break; case 3: sn::best::sort3(a, cs); break;
        case 4: sn::best::sort4(a, cs); break; case 5: sn::best::sort5(a, cs); break;
        case 6: sn::best::sort6(a, cs); break; case 7: sn::best::sort7(a, cs); break;
        case 8: sn::best::sort8(a, cs); break; case 9: sn::best::sort9(a, cs); break;
        case 10: sn::best::sort10(a, cs); break; case 11: sn::best::sort11(a, cs); break;
        case 12: sn::best::sort12(a, cs); break; case 13: sn::best::sort13(a, cs); break;
        case 14: sn::best::sort14(a, cs); break; case 15: sn::best::sort15(a, cs); break;
        case 16: sn::best::sort16(a, cs); break; default: break;
        }
    }
    else if (fam == BN) {
        switch (n) {
        case 2: sn::bose_nelson::sort2(a, cs); break; case 3: sn::bose_nelson::sort3(a, cs); break;
        case 4: sn::bose_nelson::sort4(a, cs); break; case 5: sn::bose_nelson::sort5(a, cs); break;
        case 6: sn::bose_nelson::sort6(a, cs); break; case 7: sn::bose_nelson::sort7(a, cs); break;
        case 8: sn::bose_nelson::sort8(a, cs); break; case 9: sn::bose_nelson::sort9(a, cs); break;
        case 10: sn::bose_nelson::sort10(a, cs); break; case 11: sn::bose_nelson::sort11(a, cs); break;
        case 12: sn::bose_nelson::sort12(a, cs); break; case 13: sn::bose_nelson::sort13(a, cs); break;
        case 14: sn::bose_nelson::sort14(a, cs); break; case 15: sn::bose_nelson::sort15(a, cs); break;
        case 16: sn::bose_nelson::sort16(a, cs); break; default: break;
        }
    }
    else {
        namespace P = sn::bose_nelson_parameter;
        switch (n) {
        case 2: P::sort2(a[0], a[1], cs); break;
        case 3: P::sort3(a[0], a[1], a[2], cs); break;
        case 4: P::sort4(a[0], a[1], a[2], a[3], cs); break;
        case 5: P::sort5(a[0], a[1], a[2], a[3], a[4], cs); break;
        case 6: P::sort6(a[0], a[1], a[2], a[3], a[4], a[5], cs); break;
        case 7: P::sort7(a[0], a[1], a[2], a[3], a[4], a[5], a[6], cs); break;
        case 8: P::sort8(a[0], a[1], a[2], a[3], a[4], a[5], a[6], a[7], cs); break;
        case 9: P::sort9(a[0], a[1], a[2], a[3], a[4], a[5], a[6], a[7], a[8], cs); break;
        case 10: P::sort10(a[0], a[1], a[2], a[3], a[4], a[5], a[6], a[7], a[8], a[9], cs); break;
        case 11: P::sort11(a[0], a[1], a[2], a[3], a[4], a[5], a[6], a[7], a[8], a[9], a[10], cs); break;
        case 12: P::sort12(a[0], a[1], a[2], a[3], a[4], a[5], a[6], a[7], a[8], a[9], a[10], a[11], cs); break;
        case 13: P::sort13(a[0], a[1], a[2], a[3], a[4], a[5], a[6], a[7], a[8], a[9], a[10], a[11], a[12], cs); break;
        case 14: P::sort14(a[0], a[1], a[2], a[3], a[4], a[5], a[6], a[7], a[8], a[9], a[10], a[11], a[12], a[13], cs); break;
        case 15: P::sort15(a[0], a[1], a[2], a[3], a[4], a[5], a[6], a[7], a[8], a[9], a[10], a[11], a[12], a[13], a[14], cs); break;
        case 16: P::sort16(a[0], a[1], a[2], a[3], a[4], a[5], a[6], a[7], a[8], a[9], a[10], a[11], a[12], a[13], a[14], a[15], cs); break;
        default: break;
        }
    }
}

// The dispatching sort(begin, end, cmp) is a template over the iterator and takes the comparator as the
// caller's (named, reusable) object: it is called with that object as an lvalue, and with raw pointers,
// reverse iterators, deque iterators across a block boundary and a strided iterator.
template <typename It, typename Cmp>
static void dispatched(int fam, It b, It e, Cmp& cmp) {
    if (fam == BEST) sn::best::sort(b, e, cmp);
    else if (fam == BN) sn::bose_nelson::sort(b, e, cmp);
    else sn::bose_nelson_parameter::sort(b, e, cmp);
}

//! random access iterator over every s-th object of an array: it[i] is not (&*it)[i]
template <typename T>
struct Strided {
    typedef std::random_access_iterator_tag iterator_category;
    typedef T value_type;
    typedef std::ptrdiff_t difference_type;
    typedef T* pointer;
    typedef T& reference;
    T* p; std::ptrdiff_t s;
    reference operator*() const { return *p; }
    pointer operator->() const { return p; }
    reference operator[](difference_type i) const { return p[i * s]; }
    Strided& operator++() { p += s; return *this; }
    Strided operator++(int) { Strided t = *this; p += s; return t; }
    Strided& operator--() { p -= s; return *this; }
    Strided operator--(int) { Strided t = *this; p -= s; return t; }
    Strided& operator+=(difference_type i) { p += i * s; return *this; }
    Strided& operator-=(difference_type i) { p -= i * s; return *this; }
    friend Strided operator+(Strided a, difference_type i) { a += i; return a; }
    friend Strided operator+(difference_type i, Strided a) { a += i; return a; }
    friend Strided operator-(Strided a, difference_type i) { a -= i; return a; }
    friend difference_type operator-(const Strided& a, const Strided& b) { return (a.p - b.p) / a.s; }
    friend bool operator==(const Strided& a, const Strided& b) { return a.p == b.p; }
    friend bool operator!=(const Strided& a, const Strided& b) { return a.p != b.p; }
    friend bool operator<(const Strided& a, const Strided& b) { return a.p < b.p; }
    friend bool operator>(const Strided& a, const Strided& b) { return a.p > b.p; }
    friend bool operator<=(const Strided& a, const Strided& b) { return a.p <= b.p; }
    friend bool operator>=(const Strided& a, const Strided& b) { return a.p >= b.p; }
};

enum IterKind { IT_POINTER = 0, IT_REVERSE, IT_STRIDED, IT_DEQUE, IT_KINDS };
static const char* ITN[IT_KINDS] = { "pointer", "reverse_iterator", "strided-iterator", "deque-iterator" };

//! sorts a[0..n) through the dispatcher using the given iterator kind; on return a[0..n) holds the
//! result in ascending position order of the iterator; returns a non-empty reason if objects outside
//! the range were touched. `filler` is a value that is recognisable outside the range.
template <typename T, typename Cmp, typename Same>
static std::string dispatched_via(int kind, int fam, T* a, size_t n, Cmp& cmp, const T& filler, Same same) {
    if (kind == IT_POINTER) { dispatched(fam, a, a + n, cmp); return ""; }
    if (kind == IT_REVERSE) {
        std::reverse(a, a + n);
        dispatched(fam, std::reverse_iterator<T*>(a + n), std::reverse_iterator<T*>(a), cmp);
        std::reverse(a, a + n);
        return "";
    }
    if (kind == IT_STRIDED) {
        std::vector<T> buf(3 * n + 3, filler);
        for (size_t i = 0; i < n; ++i) buf[1 + 3 * i] = a[i];
        Strided<T> b{ buf.data() + 1, 3 };
        dispatched(fam, b, b + (std::ptrdiff_t)n, cmp);
        for (size_t i = 0; i < n; ++i) a[i] = buf[1 + 3 * i];
        for (size_t i = 0; i < buf.size(); ++i)
            if (!(i % 3 == 1 && i / 3 < n) && !same(buf[i], filler)) return "object-outside-the-range-modified";
        return "";
    }
    // deque: the range straddles a block boundary of the deque (libstdc++: blocks of 512 bytes)
    const size_t block = sizeof(T) < 512 ? 512 / sizeof(T) : 1;
    const size_t front = block - std::min(block, n / 2);
    std::deque<T> d(front + n + 2, filler);
    for (size_t i = 0; i < n; ++i) d[front + i] = a[i];
    dispatched(fam, d.begin() + (std::ptrdiff_t)front, d.begin() + (std::ptrdiff_t)(front + n), cmp);
    for (size_t i = 0; i < n; ++i) a[i] = d[front + i];
    for (size_t i = 0; i < d.size(); ++i)
        if ((i < front || i >= front + n) && !same(d[i], filler)) return "object-outside-the-range-modified";
    return "";
}

/******************************************************************************/

struct E {
    uint8_t key, id;
};
VERIF_MISLEADING_ORDER(E, key)
VERIF_MISLEADING_EQUALITY(E, key)
struct ELess { bool operator()(const E& a, const E& b) const { return a.key < b.key; } };
struct EGreater { bool operator()(const E& a, const E& b) const { return a.key > b.key; } };

template <typename Cmp>
static bool check_E(const E* a, size_t n, Cmp cmp, std::string& why) {
    uint32_t ids = 0;
    for (size_t i = 0; i < n; ++i) {
        if (a[i].id >= n || (ids >> a[i].id) & 1) { why = "not-a-permutation"; return false; }
        ids |= 1u << a[i].id;
        if (i && cmp(a[i], a[i - 1])) { why = "not-sorted"; return false; }
    }
    return true;
}

static std::string dumpE(const E* a, size_t n) {
    std::string s;
    for (size_t i = 0; i < n; ++i) s += "(" + std::to_string(a[i].key) + "#" + std::to_string(a[i].id) + ")";
    return s;
}

#if VERIF_PART == 0
static void mode_zo(uint64_t n) {
    if (n > 16) return;
    uint64_t inputs = 0;
    for (int fam = 0; fam < 3; ++fam)
        for (int entry = 0; entry < 1 + IT_KINDS; ++entry)
            for (int order = 0; order < 2; ++order) {
                if (entry > 1 && order == 1) continue;   // the extra iterator kinds with one order only
                for (uint32_t bits = 0; bits < (1u << n); ++bits) {
                    E a[17], in[17];
                    for (size_t i = 0; i < n; ++i) { a[i].key = (bits >> i) & 1; a[i].id = (uint8_t)i; in[i] = a[i]; }
                    a[n].key = 0x77; a[n].id = 0x77;  // canary behind the range
                    std::string why;
                    bool ok;
                    const E filler{ 0x55, 0x55 };
                    auto sameE = [](const E& x, const E& y) { return x.key == y.key && x.id == y.id; };
                    std::string outside;
                    if (order == 0) {
                        ELess less;
                        if (entry == 0) direct(fam, a, n, sn::CS_IfSwap<ELess>(ELess()));
                        else outside = dispatched_via(entry - 1, fam, a, n, less, filler, sameE);
                        ok = check_E(a, n, ELess(), why);
                    }
                    else {
                        EGreater greater;
                        if (entry == 0) direct(fam, a, n, sn::CS_IfSwap<EGreater>(EGreater()));
                        else dispatched(fam, a, a + n, greater);
                        ok = check_E(a, n, EGreater(), why);
                    }
                    if (ok && !outside.empty()) { ok = false; why = outside; }
                    if (ok && (a[n].key != 0x77 || a[n].id != 0x77)) { ok = false; why = "wrote-behind-range"; }
                    ++inputs;
                    if (!ok) {
                        verif::fail(std::string("C15:") + FAM[fam] + ":" + (entry ? "sort(begin,end)" : "sortN") +
                                    ":n=" + std::to_string(n) + ":" + why,
                                    std::string(entry ? ITN[entry - 1] : "direct") + " " + std::string(order ? "greater " : "less ") + "input " + dumpE(in, n) +
                                    " -> " + dumpE(a, n));
                        goto next_combo;
                    }
                }
                verif::cover(std::string("zo:") + FAM[fam] + ":" + (entry ? std::string("dispatch:") + ITN[entry - 1] : std::string("direct")) +
                             ":" + (order ? "greater" : "less") + ":n=" + std::to_string(n));
            next_combo:;
            }
    verif::count("zero_one_inputs", inputs);
    verif::count("zero_one_n_complete");
    if (verif::want_sample(2))
        verif::sample("n=" + std::to_string(n) + ": all " + std::to_string(1u << n) +
                      " zero-one inputs x 3 families x {sortN, sort(begin,end) over pointers / reverse / strided / deque iterators} x {less, greater}");
}

/******************************************************************************/
// obliviousness: the index pairs of the compare-exchanges do not depend on data

struct Recorder {
    const int* base;
    std::vector<std::pair<int, int> >* log;
    void operator()(int& l, int& r) {
        log->push_back({ (int)(&l - base), (int)(&r - base) });
        if (r < l) std::swap(l, r);
    }
};

static void mode_obl(Rng& rng, uint64_t n) {
    if (n < 2 || n > 16) return;
    for (int fam = 0; fam < 3; ++fam) {
        std::vector<std::pair<int, int> > ref;
        for (int rep = 0; rep < 64; ++rep) {
            int a[16];
            for (size_t i = 0; i < n; ++i)
                a[i] = rep == 0 ? (int)i : rep == 1 ? (int)(n - i) : (int)rng.below(rep < 20 ? 2 : 100);
            std::vector<std::pair<int, int> > log;
            direct(fam, a, n, Recorder{ a, &log });
            std::string key = std::string("C15:") + FAM[fam] + ":sortN:n=" + std::to_string(n);
            for (auto& p : log)
                if (p.first < 0 || p.second >= (int)n || p.first >= p.second) {
                    verif::fail(key + ":bad-comparator",
                                "comparator (" + std::to_string(p.first) + "," + std::to_string(p.second) + ")");
                    return;
                }
            if (rep == 0) ref = log;
            else if (log != ref) { verif::fail(key + ":data-dependent", "comparator sequence differs between inputs"); return; }
            if (!std::is_sorted(a, a + n)) { verif::fail(key + ":not-sorted", "recorded run"); return; }
        }
        verif::count(std::string("comparators:") + FAM[fam] + ":n=" + std::to_string(n), ref.size());
        verif::cover(std::string("obl:") + FAM[fam] + ":n=" + std::to_string(n) + ":comparators=" + std::to_string(ref.size()));
    }
}

#endif  // VERIF_PART == 0
/******************************************************************************/
#if VERIF_PART == 1

struct Rec {
    int key;
    std::string payload;
    bool operator==(const Rec& o) const { return key == o.key && payload == o.payload; }
};
VERIF_MISLEADING_ORDER(Rec, key)
struct RecLess { bool operator()(const Rec& a, const Rec& b) const { return a.key < b.key; } };
struct RecClass { bool operator()(const Rec& a, const Rec& b) const { return a.key / 4 > b.key / 4; } };
//! stateful order with heap-owned state: records ordered by a rank table
struct RecByRank {
    std::vector<int> rank;
    bool operator()(const Rec& a, const Rec& b) const { return rank[(size_t)a.key % rank.size()] < rank[(size_t)b.key % rank.size()]; }
};
struct StrLenLess { bool operator()(const std::string& a, const std::string& b) const { return a.size() < b.size(); } };

//! has the call left the caller's comparator object as it was?
template <typename C> static bool cmp_intact(const C&, const C&) { return true; }
static bool cmp_intact(const RecByRank& now, const RecByRank& before) { return now.rank == before.rank; }
typedef std::function<bool(const Rec&, const Rec&)> RecFn;
static bool cmp_intact(const RecFn& now, const RecFn&) { return (bool)now; }

//! Iters: also through the non-pointer iterator kinds (kept to some (type, order) pairs: every pair
//! instantiates 3 families x 15 networks per iterator kind)
template <bool Iters, typename T, typename Cmp, typename Full>
static void rand_one(Rng& rng, const char* tname, const char* cname, std::vector<T> in, Cmp cmp, Full full_less, const T& filler) {
    size_t n = in.size();
    const Cmp cmp_before = cmp;
    auto same = [&](const T& x, const T& y) { return !full_less(x, y) && !full_less(y, x); };
    for (int fam = 0; fam < 3; ++fam)
        for (int entry = 0; entry < (Iters ? 1 + IT_KINDS : 2); ++entry) {
            std::vector<T> a = in;
            a.resize(n + 1);  // slot behind the range, must stay untouched
            std::string why;
            if (entry == 0) {
                // the conditional-swap object is built from a temporary copy of the comparator in a
                // statement of its own and used afterwards: it has to own its comparator
                sn::CS_IfSwap<Cmp> cs{ Cmp(cmp) };
                direct(fam, a.data(), n, cs);
            }
            else {
                // the same named comparator object for every call (and for the checks below)
                if (Iters) why = dispatched_via(entry - 1, fam, a.data(), n, cmp, filler, same);
                else dispatched(fam, a.data(), a.data() + n, cmp);
                if (!cmp_intact(cmp, cmp_before)) {
                    verif::fail(std::string("C15:") + FAM[fam] + ":sort(begin,end):comparator-object-modified",
                                std::string("type ") + tname + " order " + cname + ": the caller's comparator object was changed by the call");
                    cmp = cmp_before;
                }
            }
            a.resize(n);
            for (size_t i = 1; i < n && why.empty(); ++i)
                if (cmp(a[i], a[i - 1])) why = "not-sorted";
            if (why.empty()) {
                std::vector<T> x = a, y = in;
                std::sort(x.begin(), x.end(), full_less);
                std::sort(y.begin(), y.end(), full_less);
                if (!(x == y)) why = "not-a-permutation";
            }
            if (!why.empty())
                verif::fail(std::string("C15:") + FAM[fam] + ":" + (entry ? "sort(begin,end)" : "sortN") +
                            ":n=" + std::to_string(n) + ":" + why,
                            std::string("type ") + tname + " order " + cname + (entry ? std::string(" via ") + ITN[entry - 1] : std::string(" direct")));
            verif::cover(std::string("rand:") + tname + ":" + cname + ":" + FAM[fam] + ":" + (entry ? std::string("dispatch:") + ITN[entry - 1] : std::string("direct")));
        }
    (void)rng;
    verif::count("random_inputs");
}

static void mode_rand(Rng& rng, uint64_t) {
    for (int r = 0; r < 40; ++r) {
        size_t n = rng.below(17);
        int universe = (int)rng.pick(std::vector<int>{ 1, 2, 3, 8, 1000 });
        {
            std::vector<int> v(n);
            for (auto& x : v) x = (int)rng.below(universe) - universe / 2;
            rand_one<true>(rng, "int", "less", v, std::less<int>(), std::less<int>(), 0x55555555);
            rand_one<false>(rng, "int", "greater", v, std::greater<int>(), std::less<int>(), 0x55555555);
        }
        {
            std::vector<std::string> v(n);
            for (auto& x : v) x = std::string(rng.below(universe % 7 + 1), (char)('a' + rng.below(3))) + "-long-enough-to-live-on-the-heap";
            const std::string fill = "filler-string-outside-the-sorted-range";
            rand_one<false>(rng, "string", "less", v, std::less<std::string>(), std::less<std::string>(), fill);
            rand_one<true>(rng, "string", "by-length", v, StrLenLess(), std::less<std::string>(), fill);
        }
        {
            std::vector<Rec> v(n);
            int id = 0;
            for (auto& x : v) { x.key = (int)rng.below(universe); x.payload = "payload-of-record-number-" + std::to_string(id++); }
            auto full = [](const Rec& a, const Rec& b) { return a.key != b.key ? a.key < b.key : a.payload < b.payload; };
            const Rec fill{ -5, "filler-record-outside-the-sorted-range" };
            rand_one<false>(rng, "record", "by-key", v, RecLess(), full, fill);
            rand_one<false>(rng, "record", "by-key-class-desc", v, RecClass(), full, fill);
            RecByRank by_rank;
            by_rank.rank.resize(1 + rng.below(40));
            for (auto& x : by_rank.rank) x = (int)rng.below(6);
            rand_one<true>(rng, "record", "by-rank-table", v, by_rank, full, fill);
            RecFn fn = [by_rank](const Rec& a, const Rec& b) { return by_rank(a, b); };
            rand_one<false>(rng, "record", "std::function", v, fn, full, fill);
        }
    }
}

#endif  // VERIF_PART == 1

static void run_case(Rng& rng, uint64_t index) {
    std::string mode = verif::param("mode", "zo");
#if VERIF_PART == 0
    if (mode == "zo") mode_zo(index);
    else if (mode == "obl") mode_obl(rng, index);
#else
    if (mode == "rand") mode_rand(rng, index);
#endif
    else { fprintf(stderr, "mode %s is not in this unit\n", mode.c_str()); exit(2); }
}

VERIF_MAIN(run_case)
